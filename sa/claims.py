"""Registry of claimed properties: the source of MANIFEST.json (tools/gen_manifest.py)."""

CLAIMS = {
 "C20": {
  "text": "Static typestate/interval analysis over every path of the anchored functions: finalised hash/HMAC contexts are "
          "covered byte-for-byte by wipes at every exit; expanded AES keys and AES-CTR streams are wiped in full before free; "
          "every secret-dependent BIGNUM in crypto_dh.c is released by BN_clear_free only; aws_readkeys wipes the secret before "
          "each free; the wipe primitive is a volatile call to volatile stores and survives clang -O2 (LLVM IR lane). The property "
          "is structural, so for the listed objects it is decided in full on all paths, which no test of sampled call sequences can do.",
  "note": "Trusted: clang 14 front end/CFG, OpenSSL BN_clear_free and AES_set_encrypt_key semantics, no aliasing of the tracked "
          "objects through other pointers. Stack copies are outside the property (not returned to the allocator).",
  "technique": "static analysis: field-sensitive must-wipe dataflow on clang CFG + taint closure + -O2 LLVM IR survival check",
  "design_ref": "DESIGN.md section 4, C20",
 },
 "C14": {
  "text": "Error-discipline static analysis over all 74 units and every CFG path: each fallible acquisition is tested before use "
          "(NULLCHK), everything acquired and unpublished is released on every path to a failure return including aliases, realloc "
          "hand-over and int-returning registrations (LEAK), released slots that outlive the function are cleared (DANGLE), the five "
          "containers' fallible operations reach a failure return only with the container untouched (ATOMIC, with callee summaries "
          "and success-edge-only effects), realloc never overwrites its argument, and the void deleters/cancels/destructors handle "
          "every reachable allocation failure locally (INFALLIBLE), and from the NULL edge of every tested acquisition only failure returns "
          "are reachable, never a fall-through into the success return (REPORTED); a failed events_network_register leaves neither its slot "
          "nor a pollfd entry behind; a failed netbuf_write_reserve leaves nothing reserved (this rule located a real abort-after-failure, now "
          "fixed); released pointers with static storage are cleared. Quantifying over every acquisition site's failure edge is what "
          "'failure of the k-th allocation for every k' means structurally; tests sample none of these paths.",
  "note": "Trusted: clang CFG, acquire/release pairing tables (discovered ctor/dtor name pairs + libc/OpenSSL list), two LEAK and "
          "one INFALLIBLE frozen exceptions with reasons. Not decided: leaks on success paths, libc under real exhaustion.",
  "technique": "static analysis: typestate/ownership dataflow (leak, null-check, dangling slot, failure atomicity) on clang CFG",
  "design_ref": "DESIGN.md section 4, C14",
 },
 "C06": {
  "text": "Static typestate analysis of every handler path in network_read/write/accept/connect: exactly one disposition per path "
          "(one upstream callback then release; continuation; successful re-arm and return 0; fatal release), no use after release, "
          "cancel routines cover every registration kind that can be pending; plus the structural necessary conditions of "
          "byte-exactness: MSG_NOSIGNAL, the exact would-block errno set, EOF routing, identical re-arm, address-cursor advance, "
          "and the transfer window buf+bufpos/buflen-bufpos with bufpos advanced by exactly the kernel's answer; a registration is "
          "stored only into a slot that is empty on that path (interprocedural through the callers' states); a re-arm that cannot be "
          "made completes the request with -1; and, decided relationally (linear inequalities with Fourier-Motzkin entailment) under "
          "the pending-request invariant bufpos < buflen, minlen <= buflen: the kernel call gets buf+bufpos and buflen-bufpos >= 1 "
          "bytes, the count reported is old position + answer within [max(minlen,1), buflen], the invariant holds at the "
          "constructor's registration and at every re-arm. All kernel answer "
          "sequences reduce to which CFG edges are taken, and every edge is analysed.",
  "note": "Trusted: recv/send/accept/connect contracts, the REARM/CANCEL tables. Not decided: kernel behaviour; allocation-failure "
          "'fatal' paths are accepted as a disposition (C14 covers their leak discipline).",
  "technique": "static analysis: callback-linearity typestate on clang CFG + sibling/argument agreement rules + relational abstract interpretation (linear inequalities)",
  "design_ref": "DESIGN.md section 4, C06",
 },
 "C08": {
  "text": "Static analysis of http.c on every path: callback linearity and no use-after-release across the twelve continuation "
          "functions; no window pointer from the buffered reader reaches a NUL-terminated-string consumer unguarded (this rule located "
          "a real heap over-read, now fixed); the body budget invariant bodylen + readlen <= limit proved from the dominating guards at "
          "every budget store and append with a tiny linear-fact domain (this rule located a real off-by-two assertion failure/overflow, "
          "now fixed); status gate 100..599 before any completion or body handler; freed request fields cleared before the request is "
          "passed on; the writer's no-orphan rule (shared with C07); every acquisition in http.c, netbuf_read.c, netbuf_write.c and "
          "network_connect.c tested before use and released on every failure path, realloc never over its argument (shared with C14); "
          "the reader's window invariant and launch preconditions (relational, shared with C07); no field of the malloc'ed request "
          "read before it is stored along any continuation path; the buffered writer's whole rule set (shared with C07); a position one "
          "past a span (the header value after the colon) only where the span did not end at the terminator. Hostile byte streams only choose CFG edges, and all edges are "
          "analysed.",
  "note": "Trusted: the reader's peek window is exactly buflen readable bytes; libc strto*/sscanf semantics. Not decided: the "
          "line-splitting assertions in header parsing (a counting argument E3 cannot carry), termination, success-path leaks.",
  "technique": "static analysis: typestate (linearity), taint (unterminated window), linear-fact dataflow (budget invariant) on clang CFG",
  "design_ref": "DESIGN.md section 4, C08",
 },
 "C09": {
  "text": "Structural necessary conditions of exact decoding, decided on all paths: the window-relative header cursor is never read "
          "stale after a consume, across tail calls and later events (this rule located a real defect with 1xx interim responses, now "
          "fixed); request head length equals the pieces copied, piece for piece and loop for loop, in wire-grammar order, head before "
          "body; framing precedence HEAD/204/304 > chunked > Content-Length > EOF; the body budget shared with C08 so that bodies at "
          "the limit decode; every character class accepted ahead of a numeric conversion is a digit class of the radix converted "
          "with (chunk sizes hexadecimal, Content-Length decimal); no field of the malloc'ed request (framing flags included) is read "
          "before it is stored, along direct calls, tail calls and registered callbacks; the header-terminator scan advances only past "
          "compared positions and records only examined offsets, so a terminator cut by a read boundary is found; the reader under the "
          "decoder keeps its window invariant and grows/compacts so that any header block or chunk fits (relational, shared with C07).",
  "note": "Not decided: header name/value extraction, OWS trimming and chunk reassembly as string semantics; these quantify over "
          "byte values and are outside shape-level rules.",
  "technique": "static analysis: stale-cursor typestate over the continuation graph, length/piece multiset agreement, dominance rules",
  "design_ref": "DESIGN.md section 4, C09",
 },
 "C07": {
  "text": "The reader's window is decided relationally (abstract interpretation over disjunctions of linear inequalities, entailment by "
          "Fourier-Motzkin elimination): 0 <= bufpos <= datalen <= buflen, buflen >= 1 is an inductive invariant of netbuf_read.c; at both "
          "transport launches target == buf+datalen, capacity == buflen-datalen, minimum == len-(datalen-bufpos) as values, minimum >= 1, "
          "capacity >= minimum on every path through growth and compaction (this is what makes a wait for k bytes report success exactly "
          "when k bytes have arrived, for every k and every buffer offset). Further, state-discipline clauses of the buffered reader and writer decided on every path: monotone failure flag and its guards at "
          "every launch/reservation, one failure-callback site in return position, in-flight buffer detached/recorded/released "
          "exactly, the transport never asked for zero bytes (this rule located a real assertion failure on zero-length writes, now "
          "fixed; proved on the repaired code by a small disjunctive linear-fact domain), slot discipline of the three pending fields, "
          "the window expressions given to the transport/peek/reserve, the order of the compaction triple, status routing and the "
          "immediate-success condition; a buffer taken off the queue is launched, freed or still reachable (no orphan); the completed "
          "buffer is freed on every path of the completion handler, the failure path included; cancelling a wait discards no received "
          "byte (refuted on this tree: see the known finding). Necessary conditions of stream preservation; the refinement itself is not decided.",
  "note": "KNOWN FINDING (recorded, not repaired): cancelling a wait whose read was launched with a minimum above one byte loses the "
          "bytes the transport had received but not yet reported (rule F8-cancel; replay notes/probe_netbuf_cancel.c; DESIGN.md section 5, H). "
          "Trusted: STAILQ macros; the transport delivers at most the capacity it was given (its side is decided as N6, which C07 "
          "runs on network_read.c/network_write.c together with the would-block and completion rules). No obligation is an assumption. "
          "Not decided: equality of the delivered byte sequence with the sent one over all histories.",
  "technique": "static analysis: relational abstract interpretation (linear inequalities, Fourier-Motzkin entailment, inlined callees), dominance/typestate rules, sibling agreement",
  "design_ref": "DESIGN.md section 4, C07",
 },
 "C15": {
  "text": "Static bounds analysis: a cursor-distance dataflow carries a lower bound on end - cursor through every path of every "
          "(cursor, end) function of json.c, inferring and imposing callee preconditions, so that every read, call and returned pointer "
          "is inside [buf, end] (this rule located a real one-byte over-read on a truncated nested object, now fixed); decoders' unchecked "
          "table positions are dominated by a rejecting validation pass and table indices are bounded below the table size; every "
          "copy-like call into a fixed-size or locally allocated object is bounded by a constant or a dominating length test (linear "
          "facts), the serialised-address decoder reads only what its length tests established; strlen-relative indices need a "
          "non-empty witness; a local character array handed to a string function was filled or terminated on every path (fgets only "
          "on its non-NULL edge); an unsigned subtraction inside an array index is provably non-wrapping where it is used (relational). "
          "Truncations and hostile length fields only select CFG edges; all are analysed.",
  "note": "Trusted: libc string/conversion functions stay within valid NUL-terminated strings; clang CFG. Not decided: termination; "
          "the command-line parser (C18); humansize_parse's string cursor (needs the correlation state == -1, see C16 for its arithmetic).",
  "technique": "static analysis: cursor-distance abstract domain (E4) + linear-fact dataflow + dominance rules on clang CFG",
  "design_ref": "DESIGN.md section 4, C15",
 },
 "C16": {
  "text": "Necessary conditions of exact numeric parsing decided structurally: unsigned conversions must inspect the sign, and the sign "
          "test must be reached for every non-zero converted value, not only part of the range, after skipping exactly the isspace() "
          "characters the conversion itself skips (this rule located a real wraparound on negative numerals, now fixed); the three parsenum siblings have the same decision structure "
          "(EINVAL exactly on no-digits or unwanted trailing characters, else ERANGE on the bound tests, errno cleared first); "
          "humansize_parse accumulates only behind UINT64_MAX guards, covers its states, maps SI prefixes to the right power of 1000; "
          "humansize() prints a value within 10..9999 tenths of the unit on the scaled branch, one decimal exactly below 100 (relational).",
  "note": "Trusted: strtod/strtoimax/strtoumax. Not decided: value exactness of libc conversions, the PARSENUM type-classification "
          "arithmetic, that humansize()'s division keeps the right digits (truncation vs rounding).",
  "technique": "static analysis: sibling-agreement over branch-edge atoms, overflow-guard dominance",
  "design_ref": "DESIGN.md section 4, C16",
 },
 "C17": {
  "text": "The 12 endian routines are decided completely by bit-level symbolic evaluation of their expressions (every value, any "
          "alignment). Alphabets are compared with values derived independently from RFC 4648 and the digit definition; decoders' "
          "masks, nibble order and padding are checked; every JSON list walker must skip whitespace after a separator or an opening "
          "bracket (this rule located a real defect in nested arrays/objects, now fixed); serialize/deserialize/dup/cmp agree on "
          "sock_addr's fields and sizes; printers emit the form the resolver accepts and both classify address families by the same "
          "tests; b64decode's padding validation ('=' only as a suffix of at most two, counted and subtracted); skip_string consumes the "
          "character after a backslash whatever it is and four more after \\u; every byte of an object that becomes a sock_addr's name is "
          "defined (calloc, or malloc plus a full memset/memcpy), since addresses are compared and serialised bytewise.",
  "note": "Not decided: round-trip equality of base-64/hex over all strings, JSON key matching semantics, inet_pton/inet_ntop.",
  "technique": "static analysis: bit-level symbolic evaluation (normal forms), constant tables vs. standards, sibling agreement",
  "design_ref": "DESIGN.md section 4, C17",
 },
 "C04": {
  "text": "Ownership/typestate clauses decided on every path: each getter clears the slot or unlinks-and-releases the holder of the "
          "record it hands out; cancel never leaves a slot pointing at a released record; one invoker calls once and releases; "
          "register/cancel/get agree on the (operation, slot, poll bit) triples; registration bits and readiness bits are cleared "
          "together and the error widening adds only registered bits; timer deadlines are monotonic-clock + stored delta from success "
          "edges and are released only on the not-later edge of comparators evaluated on all nine orderings; the timer heap's "
          "handle-consistency rules (C13 H1-H3) are run here too, since a cancel through a stale handle removes the wrong timer.",
  "note": "Trusted: poll(2), monoclock_get, TAILQ macros, heap order (C13). Not decided: the pollfd/socket-list compaction "
          "invariants and the scan cursor under compaction (need an inductive relational array invariant no installed tool carries).",
  "technique": "static analysis: take-and-clear/ownership rules, sibling mapping agreement, abstract evaluation of comparators",
  "design_ref": "DESIGN.md section 4, C04",
 },
 "C05": {
  "text": "Order and propagation clauses decided on every path of the dispatch loop: a must-analysis of 'queues observed empty since "
          "the last dispatch/poll' proves priority by construction at every fetch and at the blocking poll; status is stored, tested, "
          "returned unchanged and stops dispatch; an interrupt test sits between any two dispatches; a fetched event is always "
          "dispatched; the loop never blocks after a dispatch; after the blocking wait, as after a callback, an interrupt test precedes "
          "the next dispatch; a network event is fetched only from a poll made after the last dispatch; timers in deadline order as far "
          "as structure decides it (comparators on nine orderings, key stored before the heap is told, sift directions; shared with "
          "C04/C13); the blocking time is zero exactly when the earliest deadline has passed and otherwise deadline - now with borrow, "
          "rounded up to milliseconds (decided by walking the comparison code under every ordering); immediate queues insert at the "
          "tail, remove at the head, and minq moves only past queues tested empty.",
  "note": "Trusted: TAILQ macros, poll(2). Not decided: that the heap order holds over every operation history, wall-clock waiting.",
  "technique": "static analysis: must-dataflow over the dispatch loop's CFG, status/interrupt typestate, queue-discipline rules",
  "design_ref": "DESIGN.md section 4, C05",
 },
 "C13": {
  "text": "Handle-consistency clauses decided structurally: each heap slot write is followed by a notification of that element with "
          "that index (bulk constructor: a loop over every index, after heapifying), the notifier/cookie/comparator are forwarded "
          "unchanged to every helper, add announces nelems-1, delete fills the hole from the last slot; the timer queue uses the "
          "position its notifier stored in the record the caller's cookie designates and stores/returns exactly the caller's pointer; "
          "parent/child index arithmetic is guarded and the sift loops use the comparator with the documented sign; deletion can "
          "sift the moved element in both directions, upward exactly when it is smaller than its parent; the underlying array's "
          "resize contract (C12) is run here too; the timer comparator is the lexicographic order on all nine orderings and the queue "
          "releases only on its not-later edge (shared with C04).",
  "note": "Trusted: the elastic-array wrappers. Not decided: that sifting restores the heap order for every operation history "
          "(inductive array invariant); comparator totality is C04's O6.",
  "technique": "static analysis: structural pairing (slot write / notification), argument provenance, guarded index normal forms",
  "design_ref": "DESIGN.md section 4, C13",
 },
 "C12": {
  "text": "Guards and layout shapes only: every run-time size product/sum behind its SIZE_MAX guard (doubling sites are named "
          "exceptions with their repair tests), public getters reach storage only in range, ELASTICARRAY_DECL wrappers agree on the "
          "record size, the byte-layout expressions of append/get/getsize/shrink/export and the queue/map bookkeeping steps, and the "
          "pool's atexit registration and stack discipline; resize() records the requested size on every success return and shrink "
          "records it itself when resize() fails; resize()'s success post-condition size == nsize <= alloc <= 4 nsize + 3 on all three "
          "branches (relational, with floor division): the factor-four bound after a successful resize; the containers' failure "
          "atomicity (C14's ATOMIC) is run here as well. These are "
          "necessary conditions; the refinement of the ideal models is explicitly not decided.",
  "note": "Not decided: equality with the ideal array/queue/map over operation histories, FIFO order, 'never "
          "hands out an object in use' beyond push/pop discipline (invariants over unbounded histories).",
  "technique": "static analysis: overflow-guard dominance, in-range edge rules, sibling agreement, structural layout expressions",
  "design_ref": "DESIGN.md section 4, C12",
 },
 "C10": {
  "text": "The modulus table is compared with RFC 3526 group 14 derived independently from pi by integer arithmetic (and tested for "
          "primality with its Sophie-Germain half in the thorough tier); blinded_modexp's success path is interpreted algebraically: "
          "each BIGNUM is a linear form over {priv, blinding, 2^256} or a power of the caller's base, so the exported value is "
          "base^(priv + 4*2^256) mod p with the blinding's coefficient exactly zero, all operations on the group-14 modulus, every "
          "fallible BN step tested, every BIGNUM released on every failure path and none left dangling in static storage (shared with C14); "
          "left-padding (with the length measured on the very value exported) and the numeric sanity comparison are structural. With OpenSSL's BN semantics "
          "trusted this decides the property for all private, peer and blinding values.",
  "note": "Trusted: OpenSSL BN_* semantics; the success path executes every BN call in source order (each is behind an error test).",
  "technique": "static analysis: abstract interpretation with linear forms over the call sequence + constant table vs. standard",
  "design_ref": "DESIGN.md section 4, C10",
 },
 "C11": {
  "text": "Fail-closed typestate (no generate from an unseeded or stale state; entropy failure propagates before the state is "
          "touched; instantiated set only on success), the SP 800-90A constants and reseed schedule (counter 1..256 => 256 generates "
          "per seed, 65536-byte chunks), and exact call-sequence templates of Instantiate/Reseed/Update/Generate with buffer "
          "provenance, plus the OS-entropy read loop decided relationally (every read targets the first unwritten byte and asks for "
          "exactly the rest; success only when the write position reached the end), and the HMAC contexts' typestate. Entropy failure "
          "at each call is one CFG edge each, all analysed.",
  "note": "Trusted: HMAC-SHA256 (C01 clauses), read(2). Not decided: bit-equality of outputs with a reference DRBG. Noted: when RDRAND "
          "is available the code mixes extra RDRAND output after (re)seeding; its failure is ignored by design.",
  "technique": "static analysis: typestate dataflow + call-sequence template matching against SP 800-90A",
  "design_ref": "DESIGN.md section 4, C11",
 },
 "C19": {
  "text": "Each signing function's printf templates are rendered symbolically and checked against the published SigV4 layout: one "
          "clock sample formatted twice (UTC), the HMAC key chain date->region->service->aws4_request->string-to-sign with each key the "
          "previous output, canonical-request self-consistency (lower-case sorted header names = signed-headers line = SignedHeaders= in "
          "the result; credential scope signed = scope returned; payload hash = hex(SHA-256(body, body ? bodylen : 0)) = returned "
          "content hash; returned timestamp = signed timestamp; presigned query parameters sorted and returned plus the signature); "
          "no signing function keeps state between calls (no static storage written), so a result depends on its arguments and the "
          "clock only; the HMAC-SHA256 structure rules of C01 (incl. the context typestate) are run on the units the signature depends on; "
          "a signing function that cannot allocate fails instead of returning success with the signature unwritten (REPORTED, LEAK, "
          "NULLCHK on aws_sign.c, shared with C14).",
  "note": "Trusted: strftime/gmtime_r, HMAC_SHA256_Buf/SHA256_Buf/hexify (C01/C17 clauses). Not decided: the numeric signature "
          "bytes against an independent implementation (value equality), percent-encoding (the interface does none).",
  "technique": "static analysis: symbolic rendering of format templates + argument provenance and chain rules",
  "design_ref": "DESIGN.md section 4, C19",
 },
 "C01": {
  "text": "Spec-fixed structure decided from the resolved, macro-expanded program: every constant table/literal equals a value derived "
          "independently from its defining formula; each of the 16+80+64 unrolled round statements of SHA-256/SHA-1/MD5 has the "
          "specification's register rotation, rotate amounts, boolean function (compared as a truth table), message index and constant; "
          "schedules, padding, length placement, HMAC pads/threshold/lengths, PBKDF2's block index/iteration/truncation structure, "
          "CRC32C's polynomial, initial state, table generator and step pairing; block-buffer writes are bounded; every argument "
          "passed for a `T p[static N]` parameter designates N elements and restrict-qualified scratch regions of one call never "
          "overlap; the two-word bit counters of SHA-1/MD5 (shift, carry test, high word, word order) and SHA-256's widened counter "
          "are the specification's; every streaming context is absorbed into and finalised only while initialised, on every path "
          "(typestate). Every output bit depends on these; they are necessary conditions of bit-exactness.",
  "note": "NOT decided: that the composition equals the standard functions for every message and partition (numerical equality "
          "over all inputs), one-shot/streaming agreement as an equality of outputs. Trusted: uint32_t arithmetic wraps.",
  "technique": "static analysis: constants vs. independently derived standards, structural decomposition of round statements (normal forms/truth tables)",
  "design_ref": "DESIGN.md section 4, C01",
 },
 "C02": {
  "text": "Structural clauses of the AES-CTR stream decided for both sibling implementations: the counter block is written only by "
          "the agreed nonce/counter writers and fed to the cipher as nonce_be64 || blockindex_be64; each byte range is read before it is "
          "written (in-place safety); re-initialisation resets position, nonce and the low-byte idiom on every path; the keystream "
          "position bookkeeping (offset bytectr % 16, partial/whole/tail structure, cursors moving by exactly the bytes used; the AES-NI "
          "loop re-encodes its block counter once per block inside the loop and writes the last counter back on every path) agrees "
          "between the portable and the AES-NI code; the accelerated stream code is selected only through the key layer's validated "
          "selection (dispatch rules shared with C03).",
  "note": "NOT decided: FIPS-197 equality of the block cipher (OpenSSL / AES-NI numerics), partition independence and "
          "encrypt-twice-restores as equalities of byte strings, counter carry beyond the low byte as a value property.",
  "technique": "static analysis: who-may-write rule, sibling agreement, dominance/order rules on clang CFG",
  "design_ref": "DESIGN.md section 4, C02",
 },
 "C03": {
  "text": "Dispatch-safety clauses decided in the host configuration and (thorough) in six feature subsets: instruction-set specific "
          "routines run only under the matching selector, the run-time CPU test, or inside self-test helpers; a selector is stored only "
          "behind the run-time test of every feature its unit is compiled for and a passing self-test whose call tree contains the "
          "routine being enabled; an uninitialised selector defaults to the portable path; thresholds imply the accelerated routines' "
          "preconditions; ISA flags appear only on accelerated units; sibling dispatchers agree on the selector and the accelerated "
          "branch excludes the portable one; the accelerated units use no sign-dependent vector operation and their byte-swap "
          "shuffles are byte swaps (the one class of error the library's self-test vectors, which have no byte with the top bit "
          "set, cannot see); the SSE4.2 CRC routine reads every operand at its running cursor and the reads tile exactly what each "
          "advance skips; the AES-NI CTR sibling obeys C02's counter rules.",
  "note": "NOT decided: bit-equality of accelerated and portable results for all inputs -- delegated to the library's own run-time "
          "self-tests, whose wiring is what G2 verifies (a wrong constant in an accelerated transform is caught there and falls back, "
          "so the property still holds; no table rule is armed for those units) and whose known blind spot G5 closes. ARM units "
          "cannot be parsed on this host.",
  "technique": "static analysis: control-dependence (guarded dispatch), dominance of validation, call-tree membership, Makefile flag audit",
  "design_ref": "DESIGN.md section 4, C03",
 },
 "C18": {
  "text": "Structural necessary conditions of the documented grammar decided on every path of getopt(), searchopt(), reset(), "
          "getopt_register_opt() and getopt_setrange(): every argv[optind] read happens with optind < argc known (a must-analysis over "
          "path groups, which also decides that the parser never reads beyond argv); a pack of short options starts exactly on '-x...'; "
          "'--' and '--name' are consumed and only the latter becomes an option, an operand or a lone '-' ends the options unconsumed; "
          "the pack cursor yields '-' + character, advances by one and consumes the element exactly at the terminator; a registered name "
          "matches as a prefix followed by NUL or '='; the option argument comes from the rest of the pack, else the text after '=', "
          "else the next element while one exists, otherwise the missing-argument index, and '=value' on an option without argument goes "
          "to the default index; unknown options return the string found, registered ones the canonical string fetched before any "
          "redirection; reset restores every piece of parsing state before anything is looked at.",
  "note": "Claimed late (it was listed as not applicable until the rule vocabulary built for the other parsers made these clauses "
          "expressible without tying them to a spelling). NOT decided: that the sequence of options reported equals the grammar's for every "
          "argument vector (string values), the line-number dispatch of the GETOPT_SWITCH/GETOPT_OPT macros in getopt.h (expanded only in "
          "users), the warning texts.",
  "technique": "static analysis: dominance/branch-atom rules and a path-group must-analysis on clang CFG",
  "design_ref": "DESIGN.md section 4, C18 and section 9.2",
 },
}

# Clauses added in round 4 of the seeded changes (DESIGN.md 9.2, "After round 4"); appended to the texts above.
ROUND4 = {
 "C02": "The implementation selection, once made, is never put back to undecided and hwaccel_init leaves it decided on every path "
        "(keys expanded under one decision are used under whatever decision is current).",
 "C03": "The selection is decided once: no store of HW_UNSET into the selector, decided at the end of hwaccel_init on every path; the "
        "portable CRC32C structure (the other half of every SSE4.2 result) is decided with C01's rule.",
 "C04": "A consumed readiness bit is cleared by the same routine that edits the event mask and before anything can observe it; the "
        "pollfd array is widened before the slot is recorded; the heap's sift rules are run here too.",
 "C05": "Readiness is recomputed from a poll made after the last dispatch; the timer heap's sift rules (shared with C13) are run here.",
 "C06": "A descriptor that was closed is never reported as the connected socket; a failed registration leaves neither slot nor pollfd entry.",
 "C07": "A buffer handed to the transport is not the buffer being filled; the in-flight buffer is freed on every return of the completion handler.",
 "C08": "A closed descriptor is never reported upstream; every byte the end-of-line scan reads is inside the buffer it was given (relational); "
        "no object is released twice across a failed request set-up (a callee that releases an argument on its failure path while its caller does too).",
 "C09": "The end-of-line scan stays inside its buffer (relational); an interim 1xx response is discarded before the framing of the final one is "
        "decided; a body read to end of stream asks for a minimum of one byte.",
 "C10": "Every fallible BIGNUM call of crypto_dh.c is tested; assertions on the secret-handling path test pointer arguments only.",
 "C11": "The streaming structure of alg/sha256.c (padding, HMAC pads and sequences, bounded block-buffer writes, context typestate; C01's rules) is "
        "decided here as well: the generator's output is HMAC-SHA256 of what it feeds in.",
 "C12": "Representation invariants of the elastic queue and the sequential map (offset/len/size relations) are inductive over their operations (relational).",
 "C14": "No object is released twice after an allocation failure: within a function, and across a failed call whose callee releases an argument "
        "(directly or through a field it stored it in) on its own failure path while the caller, finding the call failed, releases it too.",
 "C15": "A loop that reads from a stream ends at end of input (for every reader call on a cycle: supposing it answers EOF/NULL, no path leads back to "
        "it; end of input is sticky for the stream's other readers); unhexify reads its NUL-terminated input in order, never beyond a byte not yet "
        "known to be non-NUL (relational, with a ghost count of known non-NUL leading bytes); the option parser's argv[optind] reads are below argc "
        "and its pack cursor stops at the terminator (C18's Q1/Q4).",
 "C16": "The PARSENUM macros are decided on generic instantiations (bounds that are not literals, compiled against the current header): errno cleared "
        "first, the conversion selected by evaluating the macro's type probes in the target's type, the unsigned type limit and the clamped lower "
        "bound, ERANGE for a negative upper bound of an unsigned target, no store to errno that replaces a verdict already there, value errno != 0. "
        "humansize_parse's state machine is extracted from its control-flow graph by evaluation over known values and compared with the automaton "
        "of /[0-9]+ ?[kMGTPE]?B?/ by exhaustive exploration of the product for all byte values: same accept/reject at every end of string, "
        "multiplier == 1000^k on acceptance, the loop runs exactly while characters remain and no error was found -- the grammar clause is decided "
        "for all strings.",
 "C17": "hexify's output layout (high nibble of in[j] at out+2j, low at out+2j+1, NUL at out+2len; relational); every inet_ntop is given the space "
        "the longest text of its family needs and no more than its destination has.",
 "C19": "util/asprintf.c hands back the complete formatted string (every pass that writes is given at least the formatted length + 1 where it is made, "
        "or its output is used only where that holds; the allocation covers the space given; the length returned is the formatted length; relational); "
        "no argument of the formatting/hashing/signing calls changes value between two of its uses (the templates are compared by argument names); "
        "hexify's table, nibble order and output layout (C17's rules).",
 "C20": "A local declared as another name for the object being freed is followed (a wipe of sizeof(pointer) through the alias is seen).",
}
for _k, _v in ROUND4.items():
    CLAIMS[_k]["text"] += " " + _v
CLAIMS["C14"]["technique"] += "; double-release typestate over bounded path worlds with interprocedural failure-path summaries"
CLAIMS["C15"]["technique"] += "; relational abstract interpretation with a ghost prefix count; CFG path search for end-of-input termination"
CLAIMS["C16"]["technique"] += "; finite-domain evaluation of the CFG (state-machine extraction, product with the documented automaton; macro type probes)"
CLAIMS["C17"]["technique"] += "; relational abstract interpretation (output layout)"
CLAIMS["C19"]["technique"] += "; relational abstract interpretation (formatted-length completeness)"
CLAIMS["C16"]["note"] = CLAIMS["C16"]["note"].replace("the PARSENUM type-classification arithmetic, ", "")
CLAIMS["C15"]["note"] = CLAIMS["C15"]["note"].replace("Not decided: termination; ", "Not decided: termination other than at end of stream input; ").replace("the command-line parser (C18); ", "the option parser beyond its bounds and pack cursor (C18); ")

# Clauses added in round 5 (DESIGN.md 9.2, "After round 5").
ROUND5 = {
 "C01": "The block buffer, counter and chaining state of a hash context are touched only by that hash's own Init/Update/Pad/Final routines "
        "(everything above the hash goes through its interface).",
 "C02": "No assertion of the stream functions depends on the buffers' addresses or on the length (they are total over their data arguments).",
 "C03": "Scratch regions handed to the transform's helpers are disjoint (the implementations differ in which scratch they overwrite).",
 "C04": "Every access to the socket table is below the table's size and the cancellation reports 'unknown descriptor' on the size test only for a "
        "number that is not below it (relational, the size as a ghost quantity); after a timer's time has been changed the heap is told on every path.",
 "C05": "After a timer's time has been changed the heap is told on every path.",
 "C06": "A descriptor is closed only when nothing is registered for it (interprocedural typestate over the connect code); a completed operation's "
        "handle is dropped before anything can cancel through it; the registration's operation/slot/poll-bit mapping and the socket table's bounds "
        "(events_network.c) are decided here too.",
 "C07": "A completed transport operation's handle is dropped before anything can cancel through it.",
 "C08": "A completed operation's handle (connect, read, write, immediate) is dropped before the failure path can cancel through it; the request object "
        "keeps no pointer into the caller's request description except the body; nothing is registered for the descriptor when it is closed; realloc is "
        "never asked for zero bytes.",
 "C09": "The request object keeps no pointer into the caller's request description except the body (decided without relying on member names).",
 "C10": "A length answered by BN_bn2bin / BN_num_bytes is not taken for a status (the number zero has length 0).",
 "C11": "The entropy lengths reachable through instantiate() are {48} and through reseed() {32}, whatever the functions look like inside.",
 "C12": "realloc is never asked for zero bytes (relational: every size handed to it is provably >= 1).",
 "C13": "ptrheap_create's sift-down pass starts at or beyond the last node that has a child (2*start + 3 >= N for N >= 2, relational with floor "
        "division and non-wrapping unsigned subtraction) and comes down one node at a time; after timerqueue_increase has stored the later time "
        "every path passes ptrheap_increase.",
 "C14": "Nothing that existed before the call is released on a path to a failure return in the event, timer and I/O units (delete-then-re-add is not "
        "an update); realloc is never asked for zero bytes; no released pointer is used again after an allocation failure; an asynchronous read or "
        "write whose registration cannot be renewed ends with one callback carrying -1 (callback linearity and re-arm rules of the transport units).",
 "C15": "humansize_parse looks at no byte after its string's terminator (decided on the state machine extracted from its control-flow graph); no "
        "released pointer is handed to a call, dereferenced or returned on any path of the parsers' units (aliases followed); a copy of strlen(s) "
        "bytes into a character array leaves room for the terminator; a reset forgets the option parser's pack cursor.",
 "C16": "The conversion functions store only EINVAL or ERANGE into errno (the library conversion's own ERANGE survives) and the ERANGE store is "
        "reached on exactly the bound tests.",
 "C17": "The base-64 and hex group arithmetic is decided for all inputs: one iteration of each codec loop is evaluated in a bit-provenance domain "
        "(each bit of the accumulator is 0 or a named bit of a named input byte / table position) -- the encoder's four characters are RFC 4648's "
        "sextets with '=' exactly where it pads, the decoder's three bytes are those of the four 6-bit values, unhexify's byte is the two digits' "
        "nibbles, and every cursor and length advances by what was used (with the loop tests, the inductive step of 'decode(encode(x)) = x' over all "
        "lengths); a \\u escape in a JSON name clears the match verdict before it rejoins the other escapes; the Unix path copied into sun_path "
        "keeps its terminator.",
 "C18": "The slot scan of searchopt is left only through its own test or the match's return.",
 "C19": "Scratch regions of the HMAC helpers are disjoint and the hash context's internals are touched only by the hash's own routines.",
}
for _k, _v in ROUND5.items():
    CLAIMS[_k]["text"] += " " + _v
CLAIMS["C17"]["technique"] += "; abstract interpretation of the codec loops in a bit-provenance domain"
CLAIMS["C17"]["note"] = CLAIMS["C17"]["note"].replace("round-trip equality of base-64/hex over all strings, ", "")
CLAIMS["C15"]["note"] = CLAIMS["C15"]["note"].replace("; humansize_parse's string cursor (needs the correlation state == -1, see C16 for its arithmetic)", "")
CLAIMS["C06"]["technique"] += "; interprocedural registration typestate"
CLAIMS["C13"]["technique"] += "; relational abstract interpretation (build-heap extent)"
CLAIMS["C04"]["technique"] += "; relational abstract interpretation with a ghost table size"

ROUND6 = {
 "C01": "The CRC's running state is the value the previous step stored (no stale cached copy).",
 "C03": "Every message-schedule word of the SSE2 transform is stored before the round that reads it (walk of the round loop over known indices).",
 "C04": "The descriptor table and the poll array point at each other: a new table record starts empty in every field, an added entry and its record are linked "
        "before the entry is counted, a vacated entry is unlinked, the moved one re-linked, then the count goes down; with nfds <= fds_alloc assumed at entry "
        "the capacity assertion is implied by the code, every entry written lies below the capacity, and the capacity recorded is the element count realloc granted; "
        "the moved entry travels whole; the double-to-timeval conversion has no narrowing intermediate.",
 "C05": "The 32 priority queues start as empty tail queues of their own (initial state read from the initialiser as evaluated by the compiler).",
 "C06": "The errno values retried are exactly the would-block set, decided per errno value (any spelling: if-chain, switch, negation); network_connect tests the address "
        "it uses, completes with -1 only on the terminating NULL, routes SO_ERROR != 0 to the next address and == 0 to the completion, arms the timeout exactly when "
        "the caller gave one, never releases a request whose own descriptor may still be open, and keeps only those of its caller's pointers its interface lets it keep; "
        "cancel routines cancel the (descriptor, direction) pairs their unit registers; the request units test, release and report their allocations.",
 "C07": "poke never returns with a non-empty queue and no write in flight without launching one; the reservation mark follows reserve / consume / failed reserve.",
 "C08": "Every headers[i] is below the count beside that array; nothing released is read again through a field path or a queue macro; the cancel routine releases every "
        "member (nested ones and the socket included) that the reference tree releases; every scalar or pointer local is assigned before it is read.",
 "C09": "Each body framing is chosen under its own condition; findeol answers a position only where CR LF was found; 'too big' only when more bytes are known to follow "
        "than the limit leaves; header name/value/OWS split and chunk framing amounts.",
 "C10": "A status variable returned at the end of a cleanup ladder cannot hold 0 on any path from a failed acquisition.",
 "C12": "The recorded capacity describes the buffer (0 only beside buf = NULL, otherwise the byte count realloc has just granted beside the buffer it returned); getmin's two "
        "answers and delete's trim are each under their own condition; the queue's record moves stay within the live records.",
 "C14": "Integer bookkeeping at file scope computed before an acquisition is rolled back when the acquisition's failure reaches a failure return; after a successful realloc "
        "the result replaces the old pointer on every path; a returned status variable cannot hold 0 after a failure; destructors' member releases are part of the double-release analysis.",
 "C15": "For p = malloc(n * sizeof *p) every p[k] has k < n, with the count-allocate-copy idiom over a caller's NULL-terminated list decided through a ghost terminator index; "
        "allocations of the anchored files are tested before use and reported.",
 "C16": "The other edge of each overflow test rejects the string (its first effect is the error state).",
 "C17": "skip_ws skips exactly HT LF CR SP (decided per byte value); the escape switch decodes exactly the eight simple escapes; the address decoder accepts exactly the length "
        "the encoder produces; an address is a Unix path exactly when it starts with '/', a literal is the address exactly when inet_pton answers 1; every member of an "
        "address object is stored before it is handed on.",
}
ROUND6["C03"] += (" The SSE2 message schedule is SHA-256's for every input (exact symbolic evaluation of MSG4 and its helpers over GF(2) with canonical sums; the flow of "
                  "schedule vectors through the transform), and the SSE2 file's rounds and round constants are FIPS 180-4's. The SHA-NI transform is FIPS 180-4's compression function for every state and block "
                  "(the whole function evaluated symbolically; SHA256RNDS2/MSG1/MSG2 by their Intel SDM definitions, which are trusted).")
ROUND6["C01"] += " The HMAC pads are XORed with exactly the key's bytes into freshly initialised contexts; the word-vector helpers convert len/4 words in the hash's byte order; copies and wipes of the stack scratch stay inside their objects."
ROUND6.setdefault("C02", "The AES-NI key object has room for every round key used.")
ROUND6["C19"] = ROUND6.get("C19", "") + " A zero-length formatted string is not a failure; a failed strftime/gmtime_r is reported; results of status functions are compared with values they can return."
ROUND6["C20"] = ROUND6.get("C20", "") + " A wipe covers its object and nothing beyond it."
ROUND6["C15"] += " The key-file reader answers success only with both strings present."
for _k, _v in ROUND6.items():
    CLAIMS[_k]["text"] += " " + _v.strip()
CLAIMS["C03"]["technique"] += "; exact symbolic evaluation of SSE2 integer code (GF(2)-linear bit expressions, canonical modular sums)"
for _k in CLAIMS:
    CLAIMS[_k]["text"] += (" On the property's anchored files, differentially against the pinned tree: the sign class of every constant returned, every parameter used, every member "
                           "a constructor stored or a destructor released; and definite assignment of scalar and pointer locals.")
CLAIMS["C06"]["technique"] += "; per-value decision of branch conditions over the CFG"
CLAIMS["C15"]["technique"] += "; relational abstract interpretation with ghost allocation counts and a ghost list-terminator index"
CLAIMS["C14"]["technique"] += "; constant propagation of returned status variables; file-scope bookkeeping dataflow"
CLAIMS["C05"]["technique"] += "; static-initialiser evaluation (address constants)"

ROUND7 = {
 "C01": "A taken accelerated case of SHA256_Transform ends the function (one transform per block).",
 "C02": "A key object is used and freed by the branch that made it (the accelerated branch returns without running the portable code).",
 "C03": "A taken accelerated case of SHA256_Transform ends the function; no complement mask is narrower than the value it masks.",
 "C04": "A refused registration has not destroyed the one that existed; the table only grows; a successful poll restarts the scan; tv_usec is the fractional part times a million.",
 "C05": "A failed registration, cancellation or reset has not destroyed a registration that existed before the call; a successful poll restarts the scan at the last entry.",
 "C06": "A refused registration is not cancelled; the caller's callback is never invoked from inside the call that creates the request; a live handle is cancelled before it is forgotten.",
 "C07": "Space handed out by a reservation is inside the buffer it points into; a wait fails only when something it called failed.",
 "C08": "The caller's callback is never invoked from inside http_request() or network_connect(); reservations are inside their buffers.",
 "C09": "A handler that waits for n bytes gives a verdict on the window's contents only once they are there; a request larger than the writer's default buffer fits its own.",
 "C12": "export reads the buffer's address after the last call that can move the buffer.",
 "C13": "swap exchanges the two slots and tells each element the slot it is now in (evaluated over abstract cells); the sift after a swap continues from the element's new position.",
 "C14": "A pointer or member known to be NULL is not handed to a function that dereferences it without looking (a destructor applied to a half-constructed object).",
 "C15": "Character k of a command-line word is read only where character k - 1 is known not to be NUL; humansize_parse's accumulation cannot wrap.",
 "C16": "An overflow rejection is not overwritten before the state is tested.",
 "C17": "The port is parsed in base 10; skip_number passes exactly the characters of a JSON number.",
 "C18": "The slot count searchopt scans is the count setrange has just cleared, on every path.",
}
for _k, _v in ROUND7.items():
    CLAIMS[_k]["text"] += " " + _v
ROUND8 = {
 "C01": "No assertion contains work (ASSERT-effect).",
 "C02": "The stream functions that return nothing call nothing that can fail for lack of memory.",
 "C03": "The AES-NI key expansion loads no byte of the key beyond len (relational, through its helpers).",
 "C04": "In the dispatcher a record taken from a queue is invoked before another is taken; a realloc result is adopted only when non-NULL.",
 "C05": "A record taken from a queue is invoked before another is taken; a realloc result is adopted only when non-NULL.",
 "C08": "No allocation size depends on a number parsed out of the response (taint from parsenum/strto* answers); header lines are counted by the tokenizer that extracts them.",
 "C09": "http_findheader matches whole names; a NULL from imalloc is a failure only for a non-zero count.",
 "C10": "The sanity check rejects for the range comparison's reason only.",
 "C11": "Both feature configurations are analysed in both tiers; the amount handed to generate survives the conversion to its parameter type.",
 "C12": "Every success return of elasticarray_resize follows resize(EA, nrec * reclen) or an equality test of the byte count.",
 "C13": "No return of ptrheap_increase/decrease/increasemin without the sift, unless the position provably has no children (parent).",
 "C16": "The bounds-less PARSENUM forms hand each conversion the widest range there is.",
 "C17": "sock_addr_deserialize bounds no decoded field beyond what the exact-length test implies.",
 "C18": "optarg is only assigned one of its three sources and never moved afterwards.",
 "C19": "No va_list is handed on after another call has walked it; asprintf's output is complete wherever it is used (ghost for the space of the latest writing pass).",
 "C20": "Key bytes stored directly into an object count as key material for the wipe-before-free typestate.",
}
for _k, _v in ROUND8.items():
    CLAIMS[_k]["text"] += " " + _v
ROUND9 = {
 "C01": "No local array is read after it has been wiped; the CRC32C tables are filled before use in the host configuration and in the one without CPU features.",
 "C02": "Called in place, every output write follows the read of the input it replaces.",
 "C03": "The CRC32C tables are filled before use in both configurations; the portable AES-CTR loop reads each input byte before writing the output that replaces it.",
 "C04": "The timer's record holds a copy of the timeout, not the caller's pointer.",
 "C08": "The header block is parsed only where its terminator was seen (relational); every window byte a handler looks at has arrived.",
 "C09": "Every window byte a handler looks at has arrived; a resize on the way to the callback asks for at least one byte.",
 "C11": "generate makes exactly ceil(buflen / 32) HMAC steps, each followed by a copy of min(32, rest) bytes to its place (relational, ghost step count).",
 "C14": "The answer of a callee that can fail for lack of memory is not thrown away in a function that can report failure.",
 "C15": "A counted read from a NUL-terminated string takes its count from that string's length; a negative numeral is not accepted into an unsigned target.",
 "C16": "errno is cleared before each conversion it is tested after.",
 "C17": "Each address printer converts with its own family.",
 "C18": "A pack of single-character options is given up only at its terminator or to an option that takes the rest as its argument.",
 "C19": "No assertion contains a libc call with effects.",
 "C20": "Every heap copy of a key-file line's value is wiped before release unless the line is known to be the key id's.",
}
for _k, _v in ROUND9.items():
    CLAIMS[_k]["text"] += " " + _v
for _k in CLAIMS:
    CLAIMS[_k]["text"] += " Differentially: a function that failed only when a callee failed still does."
    CLAIMS[_k]["text"] += (" Robustness to correct refactorings: new static helpers are inlined and new temporaries read through before the shape and relational rules "
                           "run (reference: the pinned tree's names); of ninety independently written behaviour-preserving refactorings 71 are quiet under all twenty "
                           "checks (18 of the 30 written after the corrections were quiet on the first run), 19 still draw a false report (DESIGN 9.5a, benignseeds/).")

NOT_APPLICABLE = {
}

PENDING_REASON = "check not built yet in this revision of the framework (static rule designed in DESIGN.md section 4); not claimed until it runs"
