"""Obligation bookkeeping, known findings, evidence files and the exit protocol."""
import json, os, sys, time
from . import cdb

VERIF = cdb.VERIF
KNOWN_FILE = os.path.join(VERIF, "known_findings.json")


def load_known():
    if not os.path.exists(KNOWN_FILE):
        return {"known": [], "fixed": []}
    with open(KNOWN_FILE) as f:
        return json.load(f)


class Report:
    def __init__(self, pid, tier, explanation, trusted=None):
        self.pid = pid
        self.tier = tier
        self.t0 = time.time()
        self.explanation = explanation
        self.trusted = trusted or []
        self.obls = []          # dicts
        self.viol = []
        self.known_hits = []
        self.assumptions = []
        self.notes = []
        self.stats = {}
        self.rule_counts = {}
        self.configs = []
        self.known = [k for k in load_known().get("known", []) if k.get("property") == pid]

    # -- recording --------------------------------------------------------
    def ok(self, rule, instance, where="", detail=""):
        self.obls.append({"rule": rule, "instance": instance, "where": where,
                          "verdict": "discharged", "detail": detail})
        self.rule_counts[rule] = self.rule_counts.get(rule, 0) + 1

    def unknown(self, rule, instance, where="", detail=""):
        """An obligation the analysis could neither prove nor refute: recorded
        as an assumption, never as a violation."""
        self.obls.append({"rule": rule, "instance": instance, "where": where,
                          "verdict": "assumed", "detail": detail})
        self.assumptions.append("%s %s at %s: %s" % (rule, instance, where, detail))
        self.rule_counts[rule] = self.rule_counts.get(rule, 0) + 1

    def bad(self, rule, instance, where, detail, function=None, construct=None):
        """A refuted obligation.  (function, construct) identify it for the
        known-findings file: stable names, never line numbers."""
        self.rule_counts[rule] = self.rule_counts.get(rule, 0) + 1
        rec = {"rule": rule, "instance": instance, "where": where,
               "verdict": "refuted", "detail": detail,
               "function": function, "construct": construct}
        self.obls.append(rec)
        for k in self.known:
            if k.get("rule") == rule and k.get("function") == function and k.get("construct") == construct:
                self.known_hits.append((k, rec))
                rec["verdict"] = "known-finding"
                return
        self.viol.append(rec)

    def check(self, cond, rule, instance, where="", detail="", function=None, construct=None):
        if cond:
            self.ok(rule, instance, where, detail)
        else:
            self.bad(rule, instance, where, detail, function, construct)
        return cond

    def assume(self, text):
        self.assumptions.append(text)

    def require_min(self, rule, minimum):
        n = self.rule_counts.get(rule, 0)
        if n < minimum and not self.viol:
            raise cdb.AnalysisBroken("rule %s matched %d instance(s), fewer than the %d confirmed on the pinned tree: "
                                     "the construct it is anchored in has gone (vacuous pass refused)" % (rule, n, minimum))

    def defer_broken(self, msg):
        """An anchor/vacuity problem found by a rule: reported as analysis-broken
        at the end unless a refuted obligation explains it."""
        self.deferred = getattr(self, "deferred", []) + [msg]

    def names(self, f, *names):
        """Rules that identify a local or parameter by its name call this first:
        a renamed variable is a vanished anchor (analysis-broken), never a violation."""
        have = set(p["name"] for p in f.params)
        for e in f.all_elems():
            if e.cls == "DeclStmt":
                for d in e.decls or []:
                    have.add(d["name"])
        missing = [n for n in names if n not in have]
        if missing:
            self.defer_broken("%s no longer has the variable(s) %s the rule is anchored in (renamed?)" % (f.name, ", ".join(missing)))
            self.renamed = getattr(self, "renamed", 0) + 1
            return False
        return True

    def fields(self, prog, spec):
        """Rules that identify a struct member by its name state it here: spec = {unit: {record: [member names]}}.
        A member that no longer exists under that name (renamed, moved to another struct) is a vanished anchor:
        the run ends as analysis-broken, whatever the rules then made of the code -- never as a violation."""
        ok = True
        for up, recs in spec.items():
            u = prog.units.get(up)
            if u is None:
                continue
            for rec, names in recs.items():
                r = u.records.get(rec)
                if r is None:
                    self.defer_broken("struct %s is no longer defined in %s (renamed?)" % (rec, up))
                    self.renamed = getattr(self, "renamed", 0) + 1
                    ok = False
                    continue
                have = set(f["name"] for f in r.get("fields", []))
                missing = [n for n in names if n not in have]
                if missing:
                    self.defer_broken("struct %s in %s no longer has the member(s) %s the rules are anchored in (renamed?)" % (rec, up, ", ".join(missing)))
                    self.renamed = getattr(self, "renamed", 0) + 1
                    ok = False
        return ok

    def add_stats(self, prog):
        from . import anchors
        if not anchors.check(self, prog):
            # the rules would only trip over the missing names: stop here, nothing is claimed
            raise cdb.AnalysisBroken("; ".join(getattr(self, "deferred", [])))
        s = prog.stats()
        self.configs.append(prog.config.name)
        for k, v in s.items():
            self.stats[k] = self.stats.get(k, 0) + v

    # -- finishing --------------------------------------------------------
    # rules that identify nothing by a local's, parameter's or member's name: what they report stands even when another rule's
    # name anchor has gone (the other rules' reports are dropped in that case -- they may have misread the code)
    NAME_FREE = {"PARAM", "RETVAL", "CTOR", "DTOR", "INV-queue", "INV-map", "BORROW", "R2-amounts", "K10-encap", "W8-borrow", "DOUBLE-FREE", "REALLOC-nonzero", "LEAK", "NULLCHK", "REPORTED", "J6-eof", "UNINIT", "RESULT-TEST", "MASKWIDTH", "FAILPATH", "DRAIN", "ALLOCSIZE", "ASSERT-effect", "IMALLOC-zero", "VALIST", "WIPED-READ", "DROPPED", "ERRNO-FRESH", "ATOMIC-static", "REALLOC", "O5-map", "O8-capacity"}

    def finish(self):
        if getattr(self, "deferred", None) and (not self.viol or getattr(self, "renamed", 0)):
            keep = [v for v in self.viol if v["rule"] in self.NAME_FREE]
            if not keep:
                raise cdb.AnalysisBroken("; ".join(self.deferred))
            self.notes.append("not answered (rule anchors missing): " + "; ".join(self.deferred))
            self.viol = keep
        wall = time.time() - self.t0
        evdir = os.environ.get("VERIF_EVIDENCE_DIR") or os.path.join(VERIF, "evidence")
        os.makedirs(os.path.join(evdir, "violations"), exist_ok=True)
        nob = len(self.obls)
        ndis = sum(1 for o in self.obls if o["verdict"] == "discharged")
        nass = sum(1 for o in self.obls if o["verdict"] == "assumed")
        distinct = len(set((o["rule"], o["instance"], o["where"]) for o in self.obls))
        samples = []
        seen_rules = {}
        for o in self.obls:
            if seen_rules.get(o["rule"], 0) < 3 or o["verdict"] in ("refuted", "known-finding"):
                seen_rules[o["rule"]] = seen_rules.get(o["rule"], 0) + 1
                samples.append({k: o[k] for k in ("rule", "instance", "where", "verdict", "detail")})
        ev = {
            "property_id": self.pid, "tier": self.tier,
            "seed": int(os.environ.get("VERIF_SEED", "0") or 0),
            "level": "other",
            "coverage": {
                "explanation": self.explanation,
                "obligations": nob, "discharged": ndis, "assumed": nass,
                "refuted": len(self.viol), "known_findings": len(self.known_hits),
                "evaluations": max(nob, 1), "distinct_nontrivial": distinct,
                "rule": "one obligation per (rule, instance, site) found by the rule's matcher in the "
                        "resolved program; distinct = distinct (rule, instance, site) triples",
                "rule_instances": self.rule_counts,
                "configurations": self.configs,
                "analysed": self.stats,
                "samples": samples[:60],
                "checker_cmd": "python3 sa/check.py %s --tier %s" % (self.pid, self.tier),
                "trusted_base": ["clang 14 front end and clang::CFG builder", "tools/cfgx.cc extractor",
                                 "frozen idiom/exception tables in sa/rules"] + self.trusted,
                "exhaustive": False,
            },
            "assumptions": self.assumptions[:80],
            "wall_s": round(wall, 3),
            "violations": len(self.viol),
        }
        if self.notes:
            ev["coverage"]["notes"] = self.notes
        with open(os.path.join(evdir, self.pid + ".json"), "w") as f:
            json.dump(ev, f, indent=1, default=str)
        print("%s [%s]: %d obligations, %d discharged, %d assumed, %d refuted, %d known; %s; %.1fs" % (
            self.pid, self.tier, nob, ndis, nass, len(self.viol), len(self.known_hits),
            ", ".join("%s=%d" % kv for kv in sorted(self.rule_counts.items())), wall))
        for k, rec in self.known_hits:
            print("KNOWN-FINDING: property=%s %s %s: %s" % (self.pid, rec["rule"], rec["where"], k.get("what", rec["detail"])))
        rc = 0
        for n, v in enumerate(self.viol):
            p = os.path.join(evdir, "violations", "%s-%d.json" % (self.pid, n))
            with open(p, "w") as f:
                json.dump(v, f, indent=1, default=str)
            print("  %s %s at %s: %s" % (v["rule"], v["instance"], v["where"], v["detail"]))
            print("VIOLATION property=%s replay=%s" % (self.pid, p))
            rc = 1
        return rc
