"""Self-test of the relational domain (sa/poly.py) on fixtures/poly.c: claims that must be proved (precision the rules rely on)
and claims that must NOT be proved because they are false in C (soundness: modular subtraction, narrowing, sign conversion,
threshold spellings, escaping pointers, aliasing, widening).  Run by the thorough tier of every property that uses the domain;
a wrong answer is an analysis-broken result (exit 2), never a verdict about /repo."""
import json, os, subprocess
from . import cdb, ir, poly
from .poly import Lin
from .ir import norm


def _load():
    src = os.path.join(cdb.VERIF, "fixtures", "poly.c")
    out = os.path.join(cdb.workdir(), "fixture-poly.json")
    r = subprocess.run([cdb.CFGX, src, "-o", out, "--", "-std=c99", "-D_POSIX_C_SOURCE=200809L"], capture_output=True, text=True, cwd=os.path.dirname(src))
    if r.returncode != 0 or not os.path.exists(out):
        raise cdb.AnalysisBroken("cfgx failed on fixtures/poly.c: %s" % (r.stderr or r.stdout)[-300:])
    with open(out) as f:
        return ir.Unit("fixtures/poly.c", json.load(f), os.path.dirname(src))


def run():
    """Returns (number of claims checked, list of failures)."""
    u = _load()
    fails = []
    n = 0

    def P(f, name):
        p = [q for q in f.params if q["name"] == name][0]
        return ("v", p["name"], p["id"])

    def retval(A, f):
        """[(state, Lin of returned value)] per return statement."""
        out = []
        for r in f.returns():
            st = A.state_before(r)
            out.append((r, st, A.lin(r.kid(0), st)))
        return out

    def claim(fn, what, got, want):
        nonlocal n
        n += 1
        if bool(got) != want:
            fails.append("%s: %s -- %s" % (fn, what, "not proved" if want else "PROVED although false"))

    # sub_wraps
    f = u.func("sub_wraps"); A = poly.Analysis(f).run(); a = Lin.var(P(f, "a"))
    for r, st, v in retval(A, f):
        claim("sub_wraps", "a - b <= a", v is not None and A.holds(st, "<=", v, a), False)
    # sub_guarded
    f = u.func("sub_guarded"); A = poly.Analysis(f).run(); a, b = Lin.var(P(f, "a")), Lin.var(P(f, "b"))
    for r, st, v in retval(A, f):
        if norm(r.kid(0)) != ("c", 0):
            claim("sub_guarded", "d == a - b", v is not None and A.holds(st, "==", v, a - b), True)
            claim("sub_guarded", "d <= a", v is not None and A.holds(st, "<=", v, a), True)
    # twin
    f = u.func("twin"); A = poly.Analysis(f).run(); x = Lin.var(P(f, "x"))
    for r, st, v in retval(A, f):
        if norm(r.kid(0)) == ("c", 0):
            claim("twin", "x <= 1 on the false edge of x > 1", A.holds(st, "<=", x, Lin.const(1)), True)
            claim("twin", "x <= 0 on the false edge of x > 1", A.holds(st, "<=", x, Lin.const(0)), False)
        else:
            claim("twin", "x >= 2 on the true edge", A.holds(st, ">=", x, Lin.const(2)), True)
    # narrow
    f = u.func("narrow"); A = poly.Analysis(f).run(); nn = Lin.var(P(f, "n"))
    for r, st, v in retval(A, f):
        claim("narrow", "(uint8_t)n == n", v is not None and A.holds(st, "==", v, nn), False)
    # signconv
    f = u.func("signconv"); A = poly.Analysis(f).run(); rr = Lin.var(P(f, "r"))
    for r, st, v in retval(A, f):
        claim("signconv", "(size_t)r == r", v is not None and A.holds(st, "==", v, rr), False)
    # loop_count
    f = u.func("loop_count"); A = poly.Analysis(f, unsigned_terms={P(f, "n")}).run(); nn = Lin.var(P(f, "n"))
    for r, st, v in retval(A, f):
        claim("loop_count", "i >= n at exit", v is not None and A.holds(st, ">=", v, nn), True)
        claim("loop_count", "i <= 5 at exit", v is not None and A.holds(st, "<=", v, Lin.const(5)), False)
        claim("loop_count", "i <= n at exit", v is not None and A.holds(st, "<=", v, nn), True)
    # escape
    f = u.func("escape"); A = poly.Analysis(f).run(); w = P(f, "w")
    fl = lambda name: Lin.var((".", ("*", w), name))
    for r, st, v in retval(A, f):
        if norm(r.kid(0)) != ("c", 0):
            claim("escape", "bufpos <= datalen after the callee got w", A.holds(st, "<=", fl("bufpos"), fl("datalen")), False)
    A = poly.Analysis(f, quiet={"opaque"}).run()
    for r, st, v in retval(A, f):
        if norm(r.kid(0)) != ("c", 0):
            claim("escape", "bufpos <= datalen when the callee is declared quiet", A.holds(st, "<=", fl("bufpos"), fl("datalen")), True)
    # alias
    f = u.func("alias"); A = poly.Analysis(f).run()
    for r, st, v in retval(A, f):
        claim("alias", "a->bufpos == 1 after b->bufpos = 5", v is not None and A.holds(st, "==", v, Lin.const(1)), False)
    for fn, want in (("alias_types", True), ("alias_same", False), ("alias_char", False)):
        f = u.func(fn); A = poly.Analysis(f).run()
        for r, st, v in retval(A, f):
            claim(fn, "*a == 5 after a store through the other pointer", v is not None and A.holds(st, "==", v, Lin.const(5)), want)
    # quarter
    f = u.func("quarter"); A = poly.Analysis(f, unsigned_terms={P(f, "a"), P(f, "n")}).run(); a, nn = Lin.var(P(f, "a")), Lin.var(P(f, "n"))
    for r, st, v in retval(A, f):
        if norm(r.kid(0)) == ("c", 0):
            claim("quarter", "a <= 4 n + 3 when a / 4 <= n", A.holds(st, "<=", a, nn.scale(4) + 3), True)
            claim("quarter", "a <= 4 n when a / 4 <= n", A.holds(st, "<=", a, nn.scale(4)), False)
        else:
            claim("quarter", "a >= 4 n + 4 when a / 4 > n", A.holds(st, ">=", a, nn.scale(4) + 4), True)
    # join_max
    f = u.func("join_max"); A = poly.Analysis(f).run(); a, b = Lin.var(P(f, "a")), Lin.var(P(f, "b"))
    for r, st, v in retval(A, f):
        claim("join_max", "m >= a and m >= b", v is not None and A.holds(st, ">=", v, a) and A.holds(st, ">=", v, b), True)
        claim("join_max", "m == a", v is not None and A.holds(st, "==", v, a), False)
    # compact
    f = u.func("compact"); A = poly.Analysis(f).run(); w = P(f, "w")
    for r, st, v in retval(A, f):
        if norm(r.kid(0)) != ("c", 0):
            claim("compact", "have == datalen - bufpos after compaction", v is not None and A.holds(st, "==", v, fl2(w, "datalen") - fl2(w, "bufpos")), True)
            claim("compact", "bufpos == 0", A.holds(st, "==", fl2(w, "bufpos"), Lin.const(0)), True)
            claim("compact", "datalen == 0", A.holds(st, "==", fl2(w, "datalen"), Lin.const(0)), False)
    # two_per_step: the affine join finds p == out + 2 i
    f = u.func("two_per_step"); A = poly.Analysis(f, unsigned_terms={P(f, "n")}).run(); nn = Lin.var(P(f, "n"))
    for r, st, v in retval(A, f):
        claim("two_per_step", "p - out == 2 n at exit", v is not None and A.holds(st, "==", v, nn.scale(2)), True)
        claim("two_per_step", "p - out <= n at exit", v is not None and A.holds(st, "<=", v, nn), False)
        claim("two_per_step", "p - out == 3 n at exit", v is not None and A.holds(st, "==", v, nn.scale(3)), False)
    # two_loops: the first loop's exit fact survives the second loop's widening
    f = u.func("two_loops"); A = poly.Analysis(f, unsigned_terms={P(f, "n")}).run(); nn = Lin.var(P(f, "n"))
    for r, st, v in retval(A, f):
        claim("two_loops", "k == 2 n after both loops", v is not None and A.holds(st, "==", v, nn.scale(2)), True)
        claim("two_loops", "k <= n after both loops", v is not None and A.holds(st, "<=", v, nn), False)
    # self_affine: x = 2x + 3 carries x >= 1 over to x >= 5
    f = u.func("self_affine"); A = poly.Analysis(f, unsigned_terms={P(f, "x")}).run()
    for r, st, v in retval(A, f):
        if norm(r.kid(0)) != ("c", 0):
            claim("self_affine", "x >= 5 after x = 2x + 3 from x >= 1", v is not None and A.holds(st, ">=", v, Lin.const(5)), True)
            claim("self_affine", "x >= 6 after x = 2x + 3 from x >= 1", v is not None and A.holds(st, ">=", v, Lin.const(6)), False)
    # round_mask / wrong_mask
    for fn, want in (("round_mask", True), ("wrong_mask", False)):
        f = u.func(fn); A = poly.Analysis(f, unsigned_terms={P(f, "len")}).run()
        for r, st, v in retval(A, f):
            claim(fn, "result >= len", v is not None and A.holds(st, ">=", v, Lin.var(P(f, "len"))), want)
    return n, fails


def fl2(w, name):
    return Lin.var((".", ("*", w), name))


if __name__ == "__main__":
    n, fails = run()
    print("%d claims, %d wrong" % (n, len(fails)))
    for x in fails:
        print("  " + x)
