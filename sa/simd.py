"""E5: exact symbolic evaluation of straight-line SSE2 integer code (the message-schedule helpers of alg/sha256_sse2.c).

A 128-bit value is a list of 128 bit expressions.  A bit expression is a set of atoms combined by XOR (frozenset; the empty set is
the constant 0); an atom is (word term, bit index).  Shifts, shuffles, moves, byte swaps and XOR are linear over GF(2), so this
form is exact and canonical for them.  OR is evaluated only where, bit for bit, one operand is the constant 0 (the rotate idiom
`(x >> n) | (x << (32 - n))`); anything else is "cannot evaluate", never a guess.  The one non-linear operation, addition modulo 2^32
per 32-bit lane, makes a new word term Sum(multiset of operand lanes): modular addition is associative and commutative, so a
flattened multiset of operands is a canonical form for sums (a zero lane is dropped, a lane that is exactly a Sum is merged).
Two values built this way are equal as functions of the inputs if they are equal as data; the converse can fail (a sum written
as a different but equal expression), in which case the rule that compares them answers "not shown", not "wrong".

Lane numbering is Intel's: lane 0 is bits 0..31, the lowest."""

ZERO = frozenset()


class CannotEvaluate(Exception):
    pass


def word(term):
    """The 32 bits of a word term, as a lane."""
    return tuple(frozenset([(term, i)]) for i in range(32))


def vec_of_words(terms):
    out = []
    for t in terms:
        out += list(word(t))
    return out


def lanes32(v):
    return [tuple(v[32 * k:32 * k + 32]) for k in range(4)]


def as_word(lane):
    """The word term T if the lane is exactly the bits of T in order, else None."""
    t = None
    for i, b in enumerate(lane):
        if len(b) != 1:
            return None
        (tt, bi), = b
        if bi != i or (t is not None and tt != t):
            return None
        t = tt
    return t


def is_zero(lane):
    return all(not b for b in lane)


def add32(x, y):
    """Lane-wise addition modulo 2^32."""
    out = []
    for a, b in zip(lanes32(x), lanes32(y)):
        ops = []
        for l in (a, b):
            if is_zero(l):
                continue
            t = as_word(l)
            if t is not None and isinstance(t, tuple) and t and t[0] == "sum":
                ops += list(t[1])
            else:
                ops.append(l)
        if not ops:
            out += [ZERO] * 32
        elif len(ops) == 1:
            out += list(ops[0])
        else:
            out += list(word(("sum", tuple(sorted(ops, key=repr)))))
    return out


def shift_lanes(v, width, n, left):
    out = [ZERO] * 128
    for base in range(0, 128, width):
        for i in range(width):
            src = i - n if left else i + n
            if 0 <= src < width:
                out[base + i] = v[base + src]
    return out


def byteshift(v, nbytes, left):
    return shift_lanes(v, 128, 8 * nbytes, left)


def pshufd(v, imm):
    L = lanes32(v)
    out = []
    for k in range(4):
        out += list(L[(imm >> (2 * k)) & 3])
    return out


def pshufw(v, imm, high):
    out = list(v)
    base = 64 if high else 0
    words = [v[base + 16 * k:base + 16 * k + 16] for k in range(4)]
    for k in range(4):
        out[base + 16 * k:base + 16 * k + 16] = words[(imm >> (2 * k)) & 3]
    return out


def xor(a, b):
    return [x ^ y for x, y in zip(a, b)]


def or_(a, b):
    out = []
    for x, y in zip(a, b):
        if x and y:
            raise CannotEvaluate("OR of two bits neither of which is known to be 0")
        out.append(x or y)
    return out


def move_ss(a, b):
    return list(b[:32]) + list(a[32:])


class Evaluator:
    """Evaluates norm() terms of one unit; user functions are evaluated by running their (single-block) bodies."""

    def __init__(self, unit, depth=4):
        self.u = unit
        self.depth = depth

    def const(self, t):
        if t[0] == "c" and isinstance(t[1], int):
            return t[1]
        raise CannotEvaluate("an immediate operand is not a constant: %r" % (t,))

    def ev(self, t, env, depth=0):
        from .ir import norm
        if t[0] == "v":
            if t in env:
                return env[t]
            raise CannotEvaluate("value of %s is not known here" % t[1])
        if t[0] == "cast":
            return self.ev(t[-1], env, depth)
        if t[0] == "=":
            v = self.ev(t[2], env, depth)
            env[t[1]] = v
            return v
        if t[0] != "call":
            raise CannotEvaluate("unsupported expression %r" % (t[0],))
        name, args = t[1], t[2:]
        A = lambda i: self.ev(args[i], env, depth)
        if name in ("_mm_castps_si128", "_mm_castsi128_ps"):
            return A(0)
        if name == "_mm_xor_si128":
            return xor(A(0), A(1))
        if name == "_mm_or_si128":
            return or_(A(0), A(1))
        if name == "_mm_add_epi32":
            return add32(A(0), A(1))
        if name == "_mm_move_ss":
            return move_ss(A(0), A(1))
        if name in ("_mm_srli_epi64", "_mm_srli_epi32", "_mm_srli_epi16", "_mm_slli_epi64", "_mm_slli_epi32", "_mm_slli_epi16"):
            width = int(name.rsplit("epi", 1)[1])
            n = self.const(args[1])
            if n >= width:
                return [ZERO] * 128
            return shift_lanes(A(0), width, n, "slli" in name)
        if name in ("__builtin_ia32_pslldqi128_byteshift", "__builtin_ia32_psrldqi128_byteshift"):
            return byteshift(A(0), self.const(args[1]), "pslldq" in name)
        if name == "__builtin_ia32_pshufd":
            return pshufd(A(0), self.const(args[1]))
        if name in ("__builtin_ia32_pshuflw", "__builtin_ia32_pshufhw"):
            return pshufw(A(0), self.const(args[1]), name.endswith("hw"))
        f = self.u.func(name)
        if f is not None and depth < self.depth:
            return self.run(f, [A(i) for i in range(len(args))], depth + 1)
        raise CannotEvaluate("no model for %s()" % name)

    def run(self, f, argvals, depth=0):
        """Value returned by a straight-line function."""
        from .ir import norm
        env = {}
        for p, v in zip(f.params, argvals):
            env[("v", p["name"], p["id"])] = v
        order = f.rpo()
        for bid in order:
            blk = f.blocks[bid]
            if blk.cond is not None and len([s for s in blk.succs if s is not None]) > 1:
                raise CannotEvaluate("%s branches" % f.name)
            for e in blk.elems:
                if e.cls == "DeclStmt":
                    for d in e.decls or []:
                        if isinstance(d, dict) and d.get("init"):
                            env[("v", d["name"], d["id"])] = self.ev(norm(f.elem(d["init"])), env, depth)
                elif e.is_assign and e.op == "=" and norm(e.kid(0))[0] == "v":
                    env[norm(e.kid(0))] = self.ev(norm(e.kid(1)), env, depth)
                elif e.cls == "ReturnStmt":
                    return self.ev(norm(e.kid(0)), env, depth)
        raise CannotEvaluate("%s does not return a value" % f.name)


# ---- SHA-256's small sigma functions on a lane, from FIPS 180-4 ---------------------------------
def _rotr(l, n):
    return tuple(l[(i + n) % 32] for i in range(32))


def _shr(l, n):
    return tuple(l[i + n] if i + n < 32 else ZERO for i in range(32))


def _x3(a, b, c):
    return tuple(x ^ y ^ z for x, y, z in zip(a, b, c))


def sigma0(l):
    return _x3(_rotr(l, 7), _rotr(l, 18), _shr(l, 3))


def sigma1(l):
    return _x3(_rotr(l, 17), _rotr(l, 19), _shr(l, 10))


def schedule_word(W, t):
    """Lane for W[t] = sigma1(W[t-2]) + W[t-7] + sigma0(W[t-15]) + W[t-16], W a list of lanes."""
    v = [ZERO] * 128
    acc = list(W[t - 16]) + [ZERO] * 96
    for l in (W[t - 7], sigma0(W[t - 15]), sigma1(W[t - 2])):
        acc = add32(acc, list(l) + [ZERO] * 96)
    return tuple(acc[:32])
