"""E5: exact symbolic evaluation of straight-line SSE2 integer code (the message-schedule helpers of alg/sha256_sse2.c).

A 128-bit value is a list of 128 bit expressions.  A bit expression is a set of atoms combined by XOR (frozenset; the empty set is
the constant 0); an atom is (word term, bit index).  Shifts, shuffles, moves, byte swaps and XOR are linear over GF(2), so this
form is exact and canonical for them.  OR is evaluated only where, bit for bit, one operand is the constant 0 (the rotate idiom
`(x >> n) | (x << (32 - n))`); anything else is "cannot evaluate", never a guess.  The one non-linear operation, addition modulo 2^32
per 32-bit lane, makes a new word term Sum(multiset of operand lanes): modular addition is associative and commutative, so a
flattened multiset of operands (operand lane -> multiplicity) is a canonical form for sums (a zero lane is dropped, a lane that is
exactly a Sum is merged into the sum it is added to).
Two values built this way are equal as functions of the inputs if they are equal as data; the converse can fail (a sum written
as a different but equal expression), in which case the rule that compares them answers "not shown", not "wrong".

Lane numbering is Intel's: lane 0 is bits 0..31, the lowest."""

ZERO = frozenset()
_TABLE = []          # id -> structure of the word term
_IDS = {}            # structure -> id


def intern(key):
    """Word terms are hash-consed: structurally equal terms get the same small integer, so that nested sums are compared and
    hashed by identity (the terms of sixty-four rounds form a deep DAG)."""
    i = _IDS.get(key)
    if i is None:
        i = len(_TABLE)
        _TABLE.append(key)
        _IDS[key] = i
    return i


def structure(i):
    return _TABLE[i]


ONE = frozenset([(intern(("one",)), 0)])       # the constant bit 1


class CannotEvaluate(Exception):
    pass


def word(term):
    """The 32 bits of a word term, as a lane."""
    if not isinstance(term, int):
        term = intern(term)
    return tuple(frozenset([(term, i)]) for i in range(32))


def const_lane(value, bits=32):
    return tuple(ONE if (value >> i) & 1 else ZERO for i in range(bits))


def const_of(bits):
    """Integer value of a run of constant bits, or None."""
    v = 0
    for i, b in enumerate(bits):
        if b == ONE:
            v |= 1 << i
        elif b:
            return None
    return v


def _lane_key(l):
    return tuple(tuple(sorted(b)) for b in l)


def vec_of_words(terms):
    out = []
    for t in terms:
        out += list(word(t))
    return out


def lanes32(v):
    return [tuple(v[32 * k:32 * k + 32]) for k in range(4)]


def as_word(lane):
    """The word term T if the lane is exactly the bits of T in order, else None."""
    t = None
    for i, b in enumerate(lane):
        if len(b) != 1:
            return None
        (tt, bi), = b
        if bi != i or (t is not None and tt != t):
            return None
        t = tt
    return t


def is_zero(lane):
    return all(not b for b in lane)


def add32(x, y):
    """Lane-wise addition modulo 2^32."""
    out = []
    for a, b in zip(lanes32(x), lanes32(y)):
        ops = {}
        for l in (a, b):
            if is_zero(l):
                continue
            t = as_word(l)
            if t is not None and structure(t)[0] == "sum":
                for ol, cnt in structure(t)[1]:
                    ops[ol] = ops.get(ol, 0) + cnt
            else:
                ops[l] = ops.get(l, 0) + 1
        # multiplicities are counted modulo 2^32 (2^32 * x == 0 in a 32-bit lane)
        ops = {l: c % (1 << 32) for l, c in ops.items() if c % (1 << 32)}
        if not ops:
            out += [ZERO] * 32
        elif len(ops) == 1 and list(ops.values())[0] == 1:
            out += list(list(ops)[0])
        else:
            out += list(word(intern(("sum", tuple(sorted(ops.items(), key=lambda kv: _lane_key(kv[0])))))))
    return out


def add_lanes(*ls):
    """Sum of several 32-bit lanes, as a lane."""
    acc = [ZERO] * 128
    for l in ls:
        acc = add32(acc, list(l) + [ZERO] * 96)
    return tuple(acc[:32])


def bitwise3(kind, x, y, z):
    """Ch / Maj of three lanes: a word term of its own (the only non-linear bit operations of SHA-256; both sides of a comparison
    build them from the same canonical lanes)."""
    return word(intern((kind, x, y, z)))


def shift_lanes(v, width, n, left):
    out = [ZERO] * 128
    for base in range(0, 128, width):
        for i in range(width):
            src = i - n if left else i + n
            if 0 <= src < width:
                out[base + i] = v[base + src]
    return out


def byteshift(v, nbytes, left):
    return shift_lanes(v, 128, 8 * nbytes, left)


def pshufd(v, imm):
    L = lanes32(v)
    out = []
    for k in range(4):
        out += list(L[(imm >> (2 * k)) & 3])
    return out


def pshufw(v, imm, high):
    out = list(v)
    base = 64 if high else 0
    words = [v[base + 16 * k:base + 16 * k + 16] for k in range(4)]
    for k in range(4):
        out[base + 16 * k:base + 16 * k + 16] = words[(imm >> (2 * k)) & 3]
    return out


def xor(a, b):
    return [x ^ y for x, y in zip(a, b)]


def or_(a, b):
    out = []
    for x, y in zip(a, b):
        if x and y:
            raise CannotEvaluate("OR of two bits neither of which is known to be 0")
        out.append(x or y)
    return out


def move_ss(a, b):
    return list(b[:32]) + list(a[32:])


class Evaluator:
    """Evaluates norm() terms of one unit; user functions are evaluated by running their (single-block) bodies."""

    def __init__(self, unit, depth=4):
        self.u = unit
        self.depth = depth

    def const(self, t):
        if t[0] == "c" and isinstance(t[1], int):
            return t[1]
        raise CannotEvaluate("an immediate operand is not a constant: %r" % (t,))

    def ev(self, t, env, depth=0):
        from .ir import norm
        if t[0] == "v":
            if t in env:
                return env[t]
            raise CannotEvaluate("value of %s is not known here" % t[1])
        if t[0] == "[]" and t[1][0] == "v" and t[2][0] == "c":
            if t in env:
                return env[t]
            raise CannotEvaluate("value of %s[%s] is not known here" % (t[1][1], t[2][1]))
        if t[0] == "&" and t[1][0] == "[]" and t[1][1][0] == "v" and t[1][2][0] == "c":
            base = env.get(t[1][1])
            if isinstance(base, tuple) and base and base[0] == "ptr":
                return ("ptr", base[1], base[2] + t[1][2][1] * base[3], base[3])
            raise CannotEvaluate("address of an element of something that is not an input array")
        if t[0] == "cast":
            return self.ev(t[-1], env, depth)
        if t[0] == "=":
            v = self.ev(t[2], env, depth)
            env[t[1]] = v
            return v
        if t[0] != "call":
            raise CannotEvaluate("unsupported expression %r" % (t[0],))
        name, args = t[1], t[2:]
        A = lambda i: self.ev(args[i], env, depth)
        if name in ("_mm_castps_si128", "_mm_castsi128_ps"):
            return A(0)
        if name == "_mm_loadu_si128":
            p = A(0)
            if not (isinstance(p, tuple) and p and p[0] == "ptr") or p[2] % 4:
                raise CannotEvaluate("load from something that is not a word-aligned offset of an input array")
            return vec_of_words([intern((p[1], p[2] // 4 + i)) for i in range(4)])
        if name == "_mm_set_epi32":
            out = []
            for i in (3, 2, 1, 0):
                out += list(const_lane(self.const(args[i]) & 0xffffffff))
            return out
        if name == "_mm_set_epi8":
            out = []
            for i in range(15, -1, -1):
                out += list(const_lane(self.const(args[i]) & 0xff, 8))
            return out
        if name in ("_mm_shuffle_epi8", "__builtin_ia32_pshufb128"):
            x, m = A(0), A(1)
            out = []
            for i in range(16):
                sel = const_of(m[8 * i:8 * i + 8])
                if sel is None:
                    raise CannotEvaluate("byte shuffle with a mask that is not constant")
                out += [ZERO] * 8 if sel & 0x80 else list(x[8 * (sel & 15):8 * (sel & 15) + 8])
            return out
        if name == "__builtin_ia32_palignr128":
            a, b, n = A(0), A(1), self.const(args[2])
            cat = list(b) + list(a)
            return (cat[8 * n:] + [ZERO] * 256)[:128]
        if name == "_mm_unpackhi_epi64":
            a, b = A(0), A(1)
            return list(a[64:]) + list(b[64:])
        if name == "_mm_unpacklo_epi64":
            a, b = A(0), A(1)
            return list(a[:64]) + list(b[:64])
        if name == "_mm_sha256rnds2_epu32":
            return sha256rnds2(A(0), A(1), A(2))
        if name == "_mm_sha256msg1_epu32":
            return sha256msg1(A(0), A(1))
        if name == "_mm_sha256msg2_epu32":
            return sha256msg2(A(0), A(1))
        if name == "_mm_xor_si128":
            return xor(A(0), A(1))
        if name == "_mm_or_si128":
            return or_(A(0), A(1))
        if name == "_mm_add_epi32":
            return add32(A(0), A(1))
        if name == "_mm_move_ss":
            return move_ss(A(0), A(1))
        if name in ("_mm_srli_epi64", "_mm_srli_epi32", "_mm_srli_epi16", "_mm_slli_epi64", "_mm_slli_epi32", "_mm_slli_epi16"):
            width = int(name.rsplit("epi", 1)[1])
            n = self.const(args[1])
            if n >= width:
                return [ZERO] * 128
            return shift_lanes(A(0), width, n, "slli" in name)
        if name in ("__builtin_ia32_pslldqi128_byteshift", "__builtin_ia32_psrldqi128_byteshift"):
            return byteshift(A(0), self.const(args[1]), "pslldq" in name)
        if name == "__builtin_ia32_pshufd":
            return pshufd(A(0), self.const(args[1]))
        if name in ("__builtin_ia32_pshuflw", "__builtin_ia32_pshufhw"):
            return pshufw(A(0), self.const(args[1]), name.endswith("hw"))
        f = self.u.func(name)
        if f is not None and depth < self.depth:
            return self.run(f, [A(i) for i in range(len(args))], depth + 1)
        raise CannotEvaluate("no model for %s()" % name)

    def run(self, f, argvals, depth=0):
        """Value returned by a straight-line function."""
        from .ir import norm
        env = {}
        for p, v in zip(f.params, argvals):
            env[("v", p["name"], p["id"])] = v
        order = f.rpo()
        self.stores = getattr(self, "stores", [])
        for bid in order:
            blk = f.blocks[bid]
            if blk.cond is not None and len([s for s in blk.succs if s is not None]) > 1:
                raise CannotEvaluate("%s branches" % f.name)
            for e in blk.elems:
                if e.cls == "DeclStmt":
                    for d in e.decls or []:
                        if isinstance(d, dict) and d.get("init"):
                            env[("v", d["name"], d["id"])] = self.ev(norm(f.elem(d["init"])), env, depth)
                elif e.is_assign and e.op == "=" and (norm(e.kid(0))[0] == "v" or (norm(e.kid(0))[0] == "[]" and norm(e.kid(0))[1][0] == "v" and norm(e.kid(0))[2][0] == "c")):
                    env[norm(e.kid(0))] = self.ev(norm(e.kid(1)), env, depth)
                elif e.cls == "CallExpr" and e.callee == "_mm_storeu_si128" and depth == 0:
                    self.stores.append((self.ev(norm(e.arg(0)), env, depth), self.ev(norm(e.arg(1)), env, depth), e))
                elif e.cls == "ReturnStmt":
                    if not e.kids:
                        return None
                    return self.ev(norm(e.kid(0)), env, depth)
        return None


# ---- SHA-256's small sigma functions on a lane, from FIPS 180-4 ---------------------------------
def _rotr(l, n):
    return tuple(l[(i + n) % 32] for i in range(32))


def _shr(l, n):
    return tuple(l[i + n] if i + n < 32 else ZERO for i in range(32))


def _x3(a, b, c):
    return tuple(x ^ y ^ z for x, y, z in zip(a, b, c))


def sigma0(l):
    return _x3(_rotr(l, 7), _rotr(l, 18), _shr(l, 3))


def sigma1(l):
    return _x3(_rotr(l, 17), _rotr(l, 19), _shr(l, 10))


def big_sigma0(l):
    return _x3(_rotr(l, 2), _rotr(l, 13), _rotr(l, 22))


def big_sigma1(l):
    return _x3(_rotr(l, 6), _rotr(l, 11), _rotr(l, 25))


def sha256_round(st, wk_lanes):
    """One round of FIPS 180-4's compression function on the eight lanes (a..h); wk_lanes are added as they are (W_t and K_t, or
    their sum)."""
    a, b, c, d, e, f, g, h = st
    t1 = add_lanes(h, big_sigma1(e), bitwise3("ch", e, f, g), *wk_lanes)
    t2 = add_lanes(big_sigma0(a), bitwise3("maj", a, b, c))
    return (add_lanes(t1, t2), a, b, c, add_lanes(d, t1), e, f, g)


def sha256rnds2(src1, src2, wk):
    """Intel SDM, SHA256RNDS2: two rounds on (C,D,G,H) = src1, (A,B,E,F) = src2 (lane 3 first), WK in the two low lanes of wk."""
    s1, s2, k = lanes32(src1), lanes32(src2), lanes32(wk)
    st = (s2[3], s2[2], s1[3], s1[2], s2[1], s2[0], s1[1], s1[0])
    for i in range(2):
        st = sha256_round(st, [k[i]])
    a, b, c, d, e, f, g, h = st
    return list(f) + list(e) + list(b) + list(a)


def sha256msg1(x, y):
    a, b = lanes32(x), lanes32(y)
    w = a + [b[0]]
    out = []
    for i in range(4):
        out += list(add_lanes(w[i], sigma0(w[i + 1])))
    return out


def sha256msg2(x, y):
    a, b = lanes32(x), lanes32(y)
    w14, w15 = b[2], b[3]
    w16 = add_lanes(a[0], sigma1(w14))
    w17 = add_lanes(a[1], sigma1(w15))
    w18 = add_lanes(a[2], sigma1(w16))
    w19 = add_lanes(a[3], sigma1(w17))
    return list(w16) + list(w17) + list(w18) + list(w19)


def schedule_word(W, t):
    """Lane for W[t] = sigma1(W[t-2]) + W[t-7] + sigma0(W[t-15]) + W[t-16], W a list of lanes."""
    v = [ZERO] * 128
    acc = list(W[t - 16]) + [ZERO] * 96
    for l in (W[t - 7], sigma0(W[t - 15]), sigma1(W[t - 2])):
        acc = add32(acc, list(l) + [ZERO] * 96)
    return tuple(acc[:32])
