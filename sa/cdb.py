"""Compilation database for /repo, read from liball/Makefile and the two
generated *-config.h files, and the driver that runs cfgx over it."""
import os, re, subprocess, json, hashlib, shutil, sys
from concurrent.futures import ThreadPoolExecutor

VERIF = os.path.dirname(os.path.dirname(os.path.abspath(__file__)))
REPO = os.environ.get("VERIF_REPO", "/repo")
CFGX = os.path.join(VERIF, "build", "cfgx")

IDIRS = ["alg", "aws", "cpusupport", "crypto", "datastruct", "events", "http",
         "netbuf", "network", "network_ssl", "util", "external/queue"]

X86_FEATURES = ["AESNI", "RDRAND", "SHANI", "SSE2", "SSE42", "SSE42_64", "SSSE3"]
# Flags a feature's unit needs to parse, if the config file is not used.
FEATURE_FLAGS = {"AESNI": "-maes", "RDRAND": "-mrdrnd", "SHANI": "-msse2 -msha",
                 "SSE2": "", "SSE42": "-msse4.2", "SSE42_64": "-msse4.2",
                 "SSSE3": "-mssse3"}


class AnalysisBroken(Exception):
    pass


def ensure_config(repo=None):
    repo = repo or REPO
    need = [f for f in ("cpusupport-config.h", "apisupport-config.h")
            if not os.path.exists(os.path.join(repo, f))]
    if need:
        r = subprocess.run(["make"] + need, cwd=repo, capture_output=True, text=True)
        if r.returncode != 0:
            raise AnalysisBroken("cannot generate %s: %s" % (need, r.stderr[-400:]))


def exports(repo=None):
    repo = repo or REPO
    out = {}
    for f in ("cpusupport-config.h", "apisupport-config.h"):
        p = os.path.join(repo, f)
        if os.path.exists(p):
            for m in re.finditer(r'^export\s+(\w+)="([^"]*)"', open(p).read(), re.M):
                out[m.group(1)] = m.group(2)
    return out


def makefile_rules(repo=None):
    """[(unit path relative to repo, [flag variable names])] from liball/Makefile."""
    repo = repo or REPO
    mk = open(os.path.join(repo, "liball", "Makefile")).read()
    m = re.search(r"^SRCS=(.*)$", mk, re.M)
    if not m:
        raise AnalysisBroken("liball/Makefile has no SRCS line")
    srcs = m.group(1).split()
    rules = []
    lines = mk.split("\n")
    for i, l in enumerate(lines):
        m = re.match(r"^(\w[\w.-]*)\.o:\s+\.\./(\S+\.c)\b", l)
        if not m:
            continue
        cmd = lines[i + 1] if i + 1 < len(lines) else ""
        vars_ = re.findall(r"\$\{(CFLAGS_[A-Z0-9_]+)\}", cmd)
        vars_ = [v for v in vars_ if v not in ("CFLAGS_POSIX",)]
        rules.append((m.group(2), vars_))
    names = set(os.path.basename(u) for u, _ in rules)
    missing = [s for s in srcs if s not in names]
    if missing:
        raise AnalysisBroken("no Makefile rule for %s" % missing)
    return rules


def base_flags():
    f = ["-std=c99", "-D_POSIX_C_SOURCE=200809L", "-D_XOPEN_SOURCE=700", "-UNDEBUG",
         "-Wno-everything", "-I."]
    f += ["-I" + d for d in IDIRS]
    return f


class Config:
    """A build configuration: 'host' uses the generated config files; a
    feature-subset configuration passes -DCPUSUPPORT_X86_* explicitly."""

    def __init__(self, name="host", features=None, extra=()):
        self.name = name
        self.features = features  # None => host config file
        self.extra = list(extra)

    def flags_for(self, unit, vars_, exp):
        f = base_flags()
        if self.features is None:
            f += ['-DCPUSUPPORT_CONFIG_FILE="cpusupport-config.h"']
            for v in vars_:
                f += exp.get(v, "").split()
        else:
            # cpuid helpers are needed by the cpusupport_x86_* units
            f += ["-DCPUSUPPORT_X86_CPUID=1", "-DCPUSUPPORT_X86_CPUID_COUNT=1"]
            for ft in self.features:
                f.append("-DCPUSUPPORT_X86_%s=1" % ft)
            for v in vars_:
                m = re.match(r"CFLAGS_X86_(\w+)$", v)
                if m and m.group(1) in self.features:
                    f += FEATURE_FLAGS[m.group(1)].split()
                elif not m:
                    f += exp.get(v, "").split()
        f += ['-DAPISUPPORT_CONFIG_FILE="apisupport-config.h"']
        f += self.extra
        return f


HOST = Config("host")


def extract(units=None, config=HOST, repo=None, outdir=None, quiet=True):
    """Run cfgx over the given units (default: all of liball) and return
    {unit: path to facts json}.  Always re-extracts: facts reflect the
    current working tree."""
    repo = repo or REPO
    ensure_config(repo)
    exp = exports(repo)
    rules = makefile_rules(repo)
    if units is not None:
        want = set(units)
        have = set(u for u, _ in rules)
        extra = [(u, []) for u in units if u not in have]
        rules = [r for r in rules if r[0] in want] + extra
    tag = hashlib.sha256((repo + "|" + config.name).encode()).hexdigest()[:10]
    outdir = outdir or os.path.join(VERIF, "build", "facts", config.name + "-" + tag)
    os.makedirs(outdir, exist_ok=True)
    if not os.path.exists(CFGX):
        raise AnalysisBroken("build/cfgx missing: run MANIFEST.setup_cmd (sh tools/build.sh)")

    def one(rule):
        unit, vars_ = rule
        if not os.path.exists(os.path.join(repo, unit)):
            raise AnalysisBroken("unit %s named in liball/Makefile does not exist" % unit)
        out = os.path.join(outdir, unit.replace("/", "__") + ".json")
        if os.path.exists(out):
            os.unlink(out)
        cmd = [CFGX, unit, "-o", out, "--"] + config.flags_for(unit, vars_, exp)
        r = subprocess.run(cmd, cwd=repo, capture_output=True, text=True)
        if r.returncode != 0 or not os.path.exists(out):
            raise AnalysisBroken("cfgx failed on %s [%s]: %s" % (unit, config.name, (r.stderr or r.stdout)[-600:]))
        return unit, out

    with ThreadPoolExecutor(max_workers=16) as ex:
        res = dict(ex.map(one, rules))
    return res
