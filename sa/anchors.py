"""Struct members the rules identify by name, per unit (Report.fields): a renamed member is a vanished anchor."""

FIELDS = {
    "network/network_read.c": {"network_read_cookie": ["callback", "cookie", "fd", "buf", "buflen", "minlen", "bufpos"]},
    "network/network_write.c": {"network_write_cookie": ["callback", "cookie", "fd", "buf", "buflen", "minlen", "bufpos"]},
    "network/network_accept.c": {"accept_cookie": ["callback", "cookie", "fd"]},
    "network/network_connect.c": {"connect_cookie": ["callback", "cookie", "sas", "s", "cookie_timeo", "cookie_immediate"]},
    "netbuf/netbuf_read.c": {"netbuf_read": ["callback", "cookie", "read_cookie", "immediate_cookie", "buf", "buflen", "bufpos", "datalen", "ssl", "s"]},
    "netbuf/netbuf_write.c": {"netbuf_write": ["reserved", "failed", "fail_callback", "fail_cookie", "buffers", "write_cookie", "curr", "ssl", "s"],
                              "writebuf": ["buf", "buflen", "datalen"]},
    "http/http.c": {"http_cookie": ["W", "R", "req_ishead", "req_headlen", "req_head", "req_bodylen", "req_body", "callback", "cookie", "hepos", "res_head",
                                    "chunked", "readlen", "res_bodylen_max", "res_bodylen_alloc", "res"],
                    "http_response": ["status", "nheaders", "headers", "bodylen", "body"]},
    "crypto/crypto_aesctr.c": {"crypto_aesctr": ["key", "bytectr", "buf", "pblk"]},
    "datastruct/elasticarray.c": {"elasticarray": ["size", "alloc", "buf"]},
    "datastruct/elasticqueue.c": {"elasticqueue": ["EA", "offset", "len", "reclen"]},
    "datastruct/seqptrmap.c": {"seqptrmap": ["ptrs", "offset", "len"]},
    "datastruct/ptrheap.c": {"ptrheap": ["compar", "setreccookie", "cookie", "elems", "nelems"]},
    "datastruct/timerqueue.c": {"timerqueue": ["H"], "timerrec": ["tv", "rc", "ptr"]},
    "events/events.c": {"eventrec": ["func", "cookie"]},
    "events/events_network.c": {"socketrec": ["reader", "writer", "pollpos"]},
    "events/events_immediate.c": {"eventq": ["r", "prio"]},
    "util/sock.c": {"sock_addr": ["ai_family", "ai_socktype", "name", "namelen"]},
    "alg/sha256.c": {"libcperciva_SHA256_CTX": ["state", "count", "buf"]},
}


def check(rep, prog):
    """Guard every loaded unit's anchors."""
    return rep.fields(prog, {up: recs for up, recs in FIELDS.items() if up in prog.units})
