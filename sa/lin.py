"""LIN — callback linearity of continuation-passing event handlers.

For every handler-like function of a unit (a function that, on some path,
invokes the request's upstream callback, releases the request cookie,
re-arms an event with the cookie, or tail-calls another such function) every
path must end in exactly one disposition:

  COMPLETE  upstream callback invoked once, cookie released afterwards
  CONTINUE  `return (g(cookie, ...))` with g handler-like (the cookie now
            belongs to g); nothing touches the cookie afterwards
  REARM     one or more registrations succeeded, cookie alive, `return (0)`
            (or the registration call itself is the return value)
  FATAL     cookie released, every registration cancelled, `return (-1)`

and never: two callbacks, callback + re-arm, a return with none of them, or a
use of the cookie after the call that released it.
"""
from .ir import norm, show, root_var, subterms
from .dataflow import Solver, cond_atoms

# callee -> (kind, cookie argument index, 'int'|'ptr' result)
REARM = {
    "events_network_register": ("net", 1, "int"),
    "events_timer_register": ("timer", 1, "ptr"),
    "events_timer_register_double": ("timer", 1, "ptr"),
    "events_immediate_register": ("imm", 1, "ptr"),
    "netbuf_read_wait": ("wait", 3, "int"),
    "network_read": ("nread", 5, "ptr"),
    "network_write": ("nwrite", 5, "ptr"),
}
CANCEL = {"events_network_cancel": "net", "events_timer_cancel": "timer", "events_immediate_cancel": "imm",
          "netbuf_read_wait_cancel": "wait", "network_read_cancel": "nread", "network_write_cancel": "nwrite"}
RELEASERS = ("free",)


def cookie_vars(f, rec):
    """ids of variables in f that designate the request cookie of record
    type `rec`: parameters/locals of type `struct rec *`, provided the local is
    initialised from a void* parameter or is itself a parameter."""
    u = f.unit
    ids = {}

    def is_rec_ptr(ty):
        t = u.types.get(ty) or {}
        if t.get("kind") != "ptr":
            return False
        pt = u.types.get(t.get("pointee")) or {}
        return pt.get("record") == rec

    void_params = {}
    for p in f.params:
        if is_rec_ptr(p["ty"]):
            ids[p["id"]] = p["name"]
        t = u.types.get(p["ty"]) or {}
        if t.get("kind") == "ptr" and (u.types.get(t.get("pointee")) or {}).get("kind") == "void":
            void_params[p["id"]] = p["name"]
    for e in f.all_elems():
        if e.cls == "DeclStmt":
            for d in e.decls or []:
                if d.get("init") is not None and is_rec_ptr(d["ty"]):
                    init = norm(f.elem(d["init"]))
                    if init[0] == "v" and init[2] in void_params:
                        ids[d["id"]] = d["name"]
                        ids[init[2]] = init[1]
    return ids


def _calls_through_callback(e, V):
    """Indirect call whose callee is a `callback`-named field of the cookie."""
    if e.cls != "CallExpr" or e.callee is not None:
        return False
    n = norm(e.kid(0))
    if n[0] == "." and "callback" in n[2]:
        r = root_var(n)
        return r is not None and r[2] in V
    return False


def _cookie_arg(e, V):
    for k, a in enumerate(e.args):
        if a is None:
            continue
        n = norm(a)
        if n[0] == "v" and n[2] in V:
            return k
    return None


class Lin:
    def __init__(self, prog, unit, rec, releasers=(), extra_handlers=()):
        self.prog = prog
        self.unit = prog.unit(unit)
        self.rec = rec
        self.releasers = set(RELEASERS) | set(releasers)
        self.handlers = self._handler_like(set(extra_handlers))

    def _releases(self, f, e, V):
        c = e.callee
        if c is None:
            return False
        if c in self.releasers or (c.startswith("mpool_") and c.endswith("_free")):
            return _cookie_arg(e, V) is not None
        return False

    def _handler_like(self, seed):
        u = self.unit
        H = set(seed)
        info = {}
        for f in u.funcs:
            if f.file != u.path:
                continue
            V = cookie_vars(f, self.rec)
            if not V:
                continue
            intret = (u.types.get(f.ret) or {}).get("kind") == "int"
            info[f.name] = (f, V, intret)
            if not intret:
                continue
            for e in f.calls():
                if _calls_through_callback(e, V) or self._releases(f, e, V):
                    H.add(f.name)
                if e.callee in REARM and e.arg(REARM[e.callee][1]) is not None:
                    n = norm(e.arg(REARM[e.callee][1]))
                    if n[0] == "v" and n[2] in V:
                        H.add(f.name)
        changed = True
        while changed:
            changed = False
            for name, (f, V, intret) in info.items():
                if name in H or not intret:
                    continue
                for r in f.returns():
                    v = r.kid(0).strip() if r.kids and r.kid(0) is not None else None
                    if v is not None and v.cls == "CallExpr" and v.callee in H and _cookie_arg(v, V) is not None:
                        H.add(name)
                        changed = True
        self.info = info
        return H

    def analyze(self, f):
        """[(elem, message)] violations; also self.paths = number of return dispositions seen."""
        u = self.unit
        V = cookie_vars(f, self.rec)
        out = []
        disp = []
        slot_of = {}
        for e in f.all_elems():
            if e.is_assign and e.op == "=" and e.kid(1) is not None:
                r = e.kid(1).strip()
                if r is not None and r.cls == "CallExpr" and r.callee in REARM:
                    slot_of[r.pos] = norm(e.kid(0))
        slot_kind = {}

        # state: frozenset of (called, armed(frozenset), freed, deleg_pos, pending(frozenset of (pos,kind,ret)))
        init = frozenset([(0, frozenset(), False, None, frozenset())])

        def step(s, e):
            called, armed, freed, deleg, pend = s
            if e.cls == "DeclRefExpr" and e.decl and e.decl.get("id") in V and freed:
                out.append((e, "the request cookie '%s' is used after the call that released it" % e.decl["name"]))
                return s
            if e.cls != "CallExpr":
                return s
            if _calls_through_callback(e, V):
                return (min(called + 1, 2), armed, freed, deleg, pend)
            c = e.callee
            if c in REARM:
                kind, ck, rk = REARM[c]
                a = e.arg(ck)
                n = norm(a) if a is not None else None
                if n is not None and n[0] == "v" and n[2] in V:
                    return (called, armed, freed, deleg, pend | {(e.pos, kind, rk)})
                return s
            if c in CANCEL:
                return (called, armed - {CANCEL[c]}, freed, deleg, pend)
            if c in self.handlers and _cookie_arg(e, V) is not None:
                if called or deleg is not None:
                    out.append((e, "a second completion/continuation (%s) on a path that already completed the request" % c))
                return (max(called, 1), armed, True, e.pos, pend)
            if self._releases(f, e, V):
                return (called, armed, True, deleg, pend)
            return s

        def transfer(st, e):
            return frozenset(step(s, e) for s in st)

        def refine(st, cond, kind):
            if kind not in (True, False):
                return st
            atoms = cond_atoms(cond, kind)
            res = set()
            for s in st:
                called, armed, freed, deleg, pend = s
                for op, L, R, Le, Re in atoms:
                    ce = Le.strip() if Le is not None else None
                    if ce is None or ce.cls != "CallExpr":
                        continue
                    for (pos, k, rk) in list(pend):
                        if pos != ce.pos:
                            continue
                        ok = None
                        if rk == "int" and R == ("c", 0) and op in ("==", "!="):
                            ok = (op == "==")
                        elif rk == "ptr" and R == ("c", 0) and op in ("==", "!="):
                            ok = (op == "!=")
                        if ok is None:
                            continue
                        pend = pend - {(pos, k, rk)}
                        if ok:
                            armed = armed | {k}
                            if pos in slot_of:
                                slot_kind[slot_of[pos]] = k
                # the slot that holds a registration's cookie is NULL on this edge: that registration is not armed here
                for op, L, R, Le, Re in atoms:
                    if op == "==" and R == ("c", 0) and L in slot_kind:
                        armed = armed - {slot_kind[L]}
                res.add((called, armed, freed, deleg, pend))
            return frozenset(res)

        s = Solver(f, init, transfer, refine, lambda a, b: a | b, limit=400).run()
        before = len(out)
        del out[:]   # collect violations on the replay pass only (fixpoint iterations repeat them)

        def visit(e, st):
            for x in st:
                step(x, e)
            if e.cls != "ReturnStmt":
                return
            v = e.kid(0).strip() if e.kids and e.kid(0) is not None else None
            for (called, armed, freed, deleg, pend) in st:
                d = None
                tail_rearm = v is not None and v.cls == "CallExpr" and any(p[0] == v.pos for p in pend)
                untested = [p for p in pend if not (v is not None and p[0] == v.pos)]
                if called >= 2:
                    out.append((e, "two upstream callbacks/completions on one path"))
                    continue
                if deleg is not None:
                    if v is None or v.pos != deleg:
                        out.append((e, "the request was handed to %s but this return does not return its status" % f.elem(deleg).callee))
                    if armed:
                        out.append((e, "request completed/continued while a registration (%s) made on this path is still armed" % ",".join(sorted(armed))))
                    d = "CONTINUE"
                elif tail_rearm:
                    if called or freed:
                        out.append((e, "re-arm after the request was completed or released"))
                    d = "REARM"
                elif called == 1:
                    if not freed:
                        out.append((e, "upstream callback invoked but the request cookie is not released on this path"))
                    if armed:
                        out.append((e, "upstream callback invoked and an event re-armed (%s) on the same path" % ",".join(sorted(armed))))
                    d = "COMPLETE"
                elif armed or untested:
                    if freed:
                        out.append((e, "request released while a registration (%s) is armed" % ",".join(sorted(armed))))
                    if norm(e.kid(0)) != ("c", 0) and not untested:
                        out.append((e, "re-armed path must return 0"))
                    d = "REARM"
                else:
                    if freed and norm(e.kid(0)) == ("c", -1):
                        d = "FATAL"
                    else:
                        out.append((e, "return with no disposition: neither upstream callback, nor re-arm, nor release of the request (the request is lost)"))
                disp.append(d)
        s.visit(visit)
        self.paths = disp
        # de-duplicate
        seen = set()
        res = []
        for e, m in out:
            k = (e.pos, m)
            if k not in seen:
                seen.add(k)
                res.append((e, m))
        return res
