"""Resolve pointer- and lvalue-expressions to (root object, byte offset, size)
using the record layouts cfgx emits."""


def _field(unit, e):
    rec = unit.records.get(e.decl.get("record"))
    if not rec:
        return None
    for f in rec["fields"]:
        if f["name"] == e.decl["name"]:
            return f
    return None


def type_size(unit, ty):
    t = unit.types.get(ty)
    if not t:
        return None
    return t.get("size")


def pointee_size(unit, ty):
    t = unit.types.get(ty)
    if not t:
        return None
    if t.get("kind") == "ptr":
        return type_size(unit, t["pointee"])
    if t.get("kind") == "array":
        return type_size(unit, t["elem"])
    return None


def lvalue(e, unit, aliases=None):
    """(root, offset, size) of the object an lvalue expression designates.
    root is ('obj', name, id) for a named variable itself, or
    ('deref', name, id) for the object a pointer variable points to.
    offset is None when not a compile-time constant."""
    aliases = aliases or {}
    e0 = e
    if e is None:
        return None
    # casts between lvalues (rare) are transparent
    while e.cls in ("ImplicitCastExpr", "CStyleCastExpr") and e.op in ("NoOp", "LValueBitCast"):
        e = e.kid(0)
    if e.cls == "DeclRefExpr":
        d = e.decl
        if d["kind"] in ("local", "param", "global", "staticlocal"):
            return (("obj", d["name"], d["id"]), 0, type_size(unit, e.ty))
        return None
    if e.cls == "MemberExpr":
        f = _field(unit, e)
        base = e.kid(0)
        if e.op == "->":
            b = pointer(base, unit, aliases)
        else:
            b = lvalue(base, unit, aliases)
        if b is None or f is None:
            return None
        off = None if b[1] is None else b[1] + f["offset"]
        return (b[0], off, f.get("size"))
    if e.cls == "UnaryOperator" and e.op == "*":
        b = pointer(e.kid(0), unit, aliases)
        if b is None:
            return None
        return (b[0], b[1], type_size(unit, e.ty))
    if e.cls == "ArraySubscriptExpr":
        b = pointer(e.kid(0), unit, aliases)
        if b is None:
            return None
        sz = type_size(unit, e.ty)
        idx = e.kid(1)
        if idx is not None and idx.val is not None and b[1] is not None and sz is not None:
            return (b[0], b[1] + idx.val * sz, sz)
        return (b[0], None, sz)
    return None


def pointer(e, unit, aliases=None):
    """(root, offset, pointee size) of the object a pointer expression points to."""
    aliases = aliases or {}
    if e is None:
        return None
    ty = e.ty
    while e.cls in ("ImplicitCastExpr", "CStyleCastExpr"):
        if e.op == "ArrayToPointerDecay":
            lv = lvalue(e.kid(0), unit, aliases)
            if lv is None:
                return None
            return (lv[0], lv[1], pointee_size(unit, e.ty))
        if e.op == "LValueToRValue":
            k = e.kid(0)
            if k.cls == "DeclRefExpr" and k.decl["kind"] in ("local", "param", "global", "staticlocal"):
                key = (k.decl["name"], k.decl["id"])
                if key in aliases:
                    return aliases[key]
                return (("deref", k.decl["name"], k.decl["id"]), 0, pointee_size(unit, k.ty))
            # pointer loaded from memory (e.g. *key_secret): root is the lvalue path itself
            lv = lvalue(k, unit, aliases)
            if lv is not None:
                return (("load",) + (lv[0], lv[1]), 0, pointee_size(unit, k.ty))
            return None
        e = e.kid(0)
        if e is None:
            return None
    if e.cls == "UnaryOperator" and e.op == "&":
        lv = lvalue(e.kid(0), unit, aliases)
        return lv
    if e.cls == "BinaryOperator" and e.op in ("+", "-"):
        l, r = e.kid(0), e.kid(1)
        b = pointer(l, unit, aliases)
        if b is not None:
            sz = b[2]
            if r is not None and r.val is not None and b[1] is not None and sz:
                k = r.val if e.op == "+" else -r.val
                return (b[0], b[1] + k * sz, sz)
            return (b[0], None, sz)
        return None
    if e.cls == "DeclRefExpr":
        # array used without decay (sizeof etc.) or pointer lvalue: not a pointer value
        return None
    return None


def local_aliases(func, unit):
    """Local pointer variables initialised once with the address of a local
    object and never reassigned: {(name,id): pointer() result}."""
    cands = {}
    assigned = {}
    for e in func.all_elems():
        if e.cls == "DeclStmt":
            for d in e.decls or []:
                if d.get("init") is not None and d["kind"] == "local":
                    init = func.elem(d["init"])
                    p = pointer(init, unit, {})
                    if p is not None and p[0][0] == "obj":
                        cands[(d["name"], d["id"])] = p
        elif e.is_assign or e.is_incdec:
            t = e.kid(0)
            if t is not None and t.cls == "DeclRefExpr":
                key = (t.decl["name"], t.decl["id"])
                assigned[key] = assigned.get(key, 0) + 1
        elif e.cls == "UnaryOperator" and e.op == "&":
            t = e.kid(0)
            if t is not None and t.cls == "DeclRefExpr":
                key = (t.decl["name"], t.decl["id"])
                assigned[key] = assigned.get(key, 0) + 1
    return {k: v for k, v in cands.items() if k not in assigned}


class Intervals:
    """Immutable set of byte intervals [a,b)."""
    __slots__ = ("iv",)

    def __init__(self, iv=()):
        self.iv = tuple(iv)

    def add(self, a, b):
        if b <= a:
            return self
        iv = sorted(self.iv + ((a, b),))
        out = []
        for x, y in iv:
            if out and x <= out[-1][1]:
                out[-1] = (out[-1][0], max(out[-1][1], y))
            else:
                out.append((x, y))
        return Intervals(out)

    def remove(self, a, b):
        out = []
        for x, y in self.iv:
            if y <= a or x >= b:
                out.append((x, y))
            else:
                if x < a:
                    out.append((x, a))
                if y > b:
                    out.append((b, y))
        return Intervals(out)

    def covers(self, a, b):
        return any(x <= a and b <= y for x, y in self.iv) or b <= a

    def meet(self, o):
        out = []
        for x, y in self.iv:
            for p, q in o.iv:
                lo, hi = max(x, p), min(y, q)
                if lo < hi:
                    out.append((lo, hi))
        return Intervals(sorted(out))

    def __eq__(self, o):
        return isinstance(o, Intervals) and self.iv == o.iv

    def __hash__(self):
        return hash(self.iv)

    def __repr__(self):
        return "Iv%s" % (list(self.iv),)
