"""E4 — cursor-distance analysis for byte-cursor parsers.

For a function with a cursor parameter p and a limit parameter `end`, track
K = a lower bound on (end - p) along every path (join = min).  Reads through
the cursor need K >= index+1; advancing subtracts; guards add knowledge:

   p < end           true  => K >= 1
   p == end          false => K >= 1   (given K >= 0)
   end - p >= n      true  => K >= n     (and  end - p < n  false)
   p = f(p', end)    with f verified to return within [p', end] => K >= 0

Function preconditions (least entry K that verifies the body, from {0,1,2})
are inferred bottom-up over the call graph and imposed on callers; every
return must yield a pointer within [p, end].
"""
from .ir import norm, show, subterms
from .dataflow import Solver, cond_atoms

NEGINF = -10 ** 6


class CursorAnalysis:
    def __init__(self, prog, unit, limit_name="end"):
        self.prog = prog
        self.unit = prog.unit(unit)
        self.limit_name = limit_name
        self.funcs = {}
        for f in self.unit.funcs:
            if f.file != self.unit.path:
                continue
            ps = [p for p in f.params]
            lim = [p for p in ps if p["name"] == limit_name]
            if not lim:
                continue
            k = ps.index(lim[0])
            if k == 0:
                continue
            cur = ps[k - 1]
            self.funcs[f.name] = (f, ("v", cur["name"], cur["id"]), ("v", lim[0]["name"], lim[0]["id"]), k - 1, k)
        self.pre = {}
        self.problems = {}
        self.sites = {}

    # ------------------------------------------------------------------
    def infer(self):
        """Fixpoint over preconditions: start everything at 0, raise a
        function's requirement while its own body (not its callers) demands it."""
        self.pre = {n: 0 for n in self.funcs}
        for _ in range(6):
            changed = False
            for n in self.funcs:
                best = None
                for k in (0, 1, 2, 3):
                    if k < self.pre[n]:
                        continue
                    probs, _ = self.check(n, k)
                    if best is None or len(probs) < best[1]:
                        best = (k, len(probs))
                    if not probs:
                        break
                if best is not None and best[0] != self.pre[n]:
                    self.pre[n] = best[0]
                    changed = True
            if not changed:
                break
        return self.pre

    # ------------------------------------------------------------------
    def check(self, name, entryK=None):
        """Returns (problems, sites).  problems: [(elem, need, have, what)].
        own_only: ignore call-site obligations whose shortfall is the callee's
        precondition (used during inference of this function's own needs) -- no:
        call obligations are this function's needs too, so they always count."""
        f, P, E, pi, ei = self.funcs[name]
        if entryK is None:
            entryK = self.pre.get(name, 0)
        problems = []
        sites = []

        # secondary cursors: pointer variables that came in with an inlined helper (its locals, its parameters bound to fresh
        # locals, the placeholder for its result -- sa/inline.py).  The state is the bound for P plus one bound per secondary
        # cursor; without any (the pinned tree) it is the single number it always was.
        sec = set()
        for x in f.all_elems():
            if x.cls == "DeclRefExpr" and x.decl and x.decl.get("kind") == "local" and isinstance(x.decl.get("id"), int) and x.decl["id"] >= 100000000 \
                    and (f.unit.types.get(x.ty) or {}).get("kind") == "ptr":
                sec.add(("v", x.decl["name"], x.decl["id"]))
        CUR = {P} | sec

        def getk(st, V):
            if V == P:
                return st[0]
            for v, k in st[1]:
                if v == V:
                    return k
            return NEGINF

        def setk(st, V, k):
            if V == P:
                return (k, st[1])
            return (st[0], frozenset([(v, x) for v, x in st[1] if v != V] + [(V, k)]))

        def off2(n):
            """(cursor variable, offset) when n designates cursor + const"""
            while n[0] == "cast":
                n = n[-1]
            if n in CUR:
                return n, 0
            if n[0] == "&" and n[1][0] == "[]" and n[1][1] in CUR and n[1][2][0] == "c":
                return n[1][1], n[1][2][1]
            if n[0] == "+" and n[1] in CUR and n[2][0] == "c":
                return n[1], n[2][1]
            return None

        def off(n):
            o = off2(n)
            return o[1] if o is not None and o[0] == P else None

        def need(e, k, K, what):
            sites.append((e, k, K, what))
            if K < k:
                problems.append((e, k, K, what))

        def transfer(st, e):
            # reads through a cursor
            if e.cls == "ImplicitCastExpr" and e.op == "LValueToRValue":
                n = norm(e.kid(0))
                if n[0] == "[]" and n[1] in CUR and n[2][0] == "c":
                    need(e, n[2][1] + 1, getk(st, n[1]), "read of %s[%d]" % (n[1][1], n[2][1]))
                elif n[0] == "[]" and n[1] in CUR:
                    need(e, 10 ** 5, getk(st, n[1]), "read of %s[%s] with a non-constant index" % (n[1][1], show(n[2])))
                elif n[0] == "*" and n[1] in CUR:
                    need(e, 1, getk(st, n[1]), "read of *%s" % n[1][1])
                elif n[0] == "*" and n[1][0] == "upost++" and n[1][1] in CUR:
                    # the increment has already been applied to K when the load element is reached
                    need(e, 0, getk(st, n[1][1]), "read of *%s++ (needs one byte before the increment)" % n[1][1][1])
                return st
            if e.is_incdec and norm(e.kid(0)) in CUR:
                V = norm(e.kid(0))
                K = getk(st, V)
                if e.op in ("post++", "pre++"):
                    return setk(st, V, K - 1 if K > NEGINF else K)
                return setk(st, V, NEGINF)
            if e.is_assign and norm(e.kid(0)) in CUR:
                V = norm(e.kid(0))
                K = getk(st, V)
                if e.op == "+=" and norm(e.kid(1))[0] == "c":
                    c = norm(e.kid(1))[1]
                    need(e, c, K, "%s += %d" % (V[1], c))
                    return setk(st, V, K - c if K > NEGINF else K)
                if e.op == "=":
                    r = e.kid(1).strip() if e.kid(1) is not None else None
                    if r is not None and r.cls == "CallExpr" and r.callee in self.funcs:
                        return setk(st, V, 0)       # verified post-condition of the callee: result within [arg, end]
                    rn = norm(e.kid(1))
                    o = off2(rn)
                    if o is not None:
                        kw = getk(st, o[0])
                        return setk(st, V, kw - o[1] if kw > NEGINF else kw)
                    if rn == E:
                        return setk(st, V, 0)
                    if rn == ("c", 0) and V != P:
                        # a helper's "no result": NULL is not a position; the paths that carry it are told apart by the
                        # caller's test of the result, which this domain (one bound per variable) cannot do -- so NULL
                        # constrains nothing here (dereferencing it is NULLCHK's business, not a question of bounds)
                        return setk(st, V, 10 ** 4)
                    return setk(st, V, NEGINF)
                return setk(st, V, NEGINF)
            if e.cls == "CallExpr":
                c = e.callee
                if c in self.funcs:
                    g = self.funcs[c]
                    a = e.arg(g[3])
                    o = off2(norm(a)) if a is not None else None
                    lim_ok = e.arg(g[4]) is not None and norm(e.arg(g[4])) == E
                    if o is None or not lim_ok:
                        if a is not None and any(t in CUR for t in subterms(norm(a))):
                            need(e, 10 ** 5, st[0], "call %s with a cursor expression the analysis cannot bound" % c)
                    else:
                        need(e, self.pre.get(c, 0) + o[1], getk(st, o[0]), "call %s needs end - %s >= %d" % (c, show(norm(a)), self.pre.get(c, 0)))
                elif c in ("memcmp", "memcpy", "memchr"):
                    for k in (0, 1):
                        a = e.arg(k)
                        o = off2(norm(a)) if a is not None else None
                        if o is not None:
                            ln = e.arg(2)
                            if ln is not None and ln.val is not None:
                                need(e, o[1] + ln.val, getk(st, o[0]), "%s reads %d bytes at %s" % (c, ln.val, show(norm(a))))
                            else:
                                need(e, 10 ** 5, getk(st, o[0]), "%s with a non-constant length at the cursor" % c)
                elif c is not None:
                    for a in e.args:
                        if a is not None and off2(norm(a)) is not None and c not in ("__builtin_expect",):
                            need(e, 10 ** 5, st[0], "cursor passed to %s, whose reads are not bounded by `end`" % c)
                return st
            if e.cls == "ReturnStmt" and e.kids and e.kid(0) is not None:
                r = e.kid(0).strip()
                rn = norm(e.kid(0))
                o = off2(rn)
                if rn == E:
                    sites.append((e, 0, st[0], "returns end"))
                elif o is not None:
                    need(e, o[1], getk(st, o[0]), "returns %s, which must not be beyond end" % show(rn))
                elif r is not None and r.cls == "CallExpr" and r.callee in self.funcs:
                    sites.append((e, 0, st[0], "returns the result of %s (within [arg, end])" % r.callee))
                elif (f.unit.types.get(f.ret) or {}).get("kind") == "ptr":
                    need(e, 10 ** 5, st[0], "returns %s, which is not derived from the cursor or end" % show(rn))
                return st
            return st

        def refine(st, cond, kind):
            if kind not in (True, False):
                return st
            for op, L, R, _, _ in cond_atoms(cond, kind):
                for V in CUR:
                    K = getk(st, V)
                    K0 = K
                    if L == V and R == E:
                        if op == "<":
                            K = max(K, 1)
                        elif op == "!=" and K >= 0:
                            K = max(K, 1)
                        elif op == "<=":
                            K = max(K, 0)
                    if L == E and R == V:
                        if op == ">":
                            K = max(K, 1)
                        elif op == "!=" and K >= 0:
                            K = max(K, 1)
                    if L == ("-", E, V) and R[0] == "c":
                        if op == ">=":
                            K = max(K, R[1])
                        elif op == ">":
                            K = max(K, R[1] + 1)
                    if K != K0:
                        st = setk(st, V, K)
            return st

        def widen(a, b):
            m = min(a[0], b[0])
            ka, kb = dict(a[1]), dict(b[1])
            s2 = frozenset((v, (lambda x: NEGINF if x < -16 else x)(min(ka.get(v, NEGINF), kb.get(v, NEGINF)))) for v in set(ka) | set(kb))
            return (NEGINF if m < -16 else m, s2)    # descending chains in loops: give up on the bound
        entryK = (entryK, frozenset())
        s = Solver(f, entryK, transfer, refine, widen, limit=400).run()
        del problems[:]
        del sites[:]
        s.visit(lambda e, st: None)     # transfer is re-run by visit and records needs once per element
        # de-duplicate by element (visit runs transfer once per element in RPO)
        seen = set()
        ps = []
        for e, k, K, what in problems:
            if (e.pos, what) in seen:
                continue
            seen.add((e.pos, what))
            ps.append((e, k, K, what))
        seen = set()
        ss = []
        for e, k, K, what in sites:
            if (e.pos, what) in seen:
                continue
            seen.add((e.pos, what))
            ss.append((e, k, K, what))
        return ps, ss
