"""E3-lite: a must-analysis of atomic order facts between terms.

A fact is (op, L, R) with op in {'<=', '<', '!=', '=='}, L and R norm()
terms ('==' is stored as '<=' both ways).  Facts are generated on branch
edges and by assignments `x = E` (x == E when E does not mention x), killed
when any variable or access path they mention is written (or may be written
by a call taking its address / a non-const pointer to it), and joined by
intersection.  Queries are answered by direct lookup plus a constant offset:
   L <= R + k   holds if a fact  L <= R + j  with j <= k is known.
No solver, no transitive closure beyond one step."""
from .ir import norm, root_var, subterms
from .dataflow import Solver, cond_atoms, NEG, SWAP


def lin(n):
    """Split a term into (base, const): x + 2 -> (x, 2); 5 -> (None, 5)."""
    if n[0] == "c":
        return (None, n[1])
    if n[0] == "+" and len(n) == 3:
        if n[2][0] == "c":
            b, c = lin(n[1])
            return (b, c + n[2][1])
        if n[1][0] == "c":
            b, c = lin(n[2])
            return (b, c + n[1][1])
    if n[0] == "-" and len(n) == 3 and n[2][0] == "c":
        b, c = lin(n[1])
        return (b, c - n[2][1])
    return (n, 0)


def mentions(term, path):
    return any(t == path for t in subterms(term))


class Facts:
    def __init__(self, func, entry_facts=()):
        self.f = func
        self.entry = frozenset(entry_facts)

    # facts are normalised to (L, R, k) meaning L <= R + k  (L, R terms or None for 0)
    @staticmethod
    def mk(op, L, R):
        out = []
        lb, lc = lin(L)
        rb, rc = lin(R)
        k = rc - lc
        if op == "<=":
            out.append((lb, rb, k))
        elif op == "<":
            out.append((lb, rb, k - 1))
        elif op == ">=":
            out.append((rb, lb, -k))
        elif op == ">":
            out.append((rb, lb, -k - 1))
        elif op == "==":
            out.append((lb, rb, k))
            out.append((rb, lb, -k))
        elif op == "!=":
            out.append(("ne", lb, rb, k))
        return out

    def _kill(self, st, path):
        def dead(fact):
            terms = fact[1:3] if fact[0] == "ne" else fact[0:2]
            for t in terms:
                if t is not None and (mentions(t, path) or (path[0] == "v" and root_var(t) == path and t != path and False)):
                    return True
            return False
        return frozenset(x for x in st if not dead(x))

    def _kill_pointee(self, st, P):
        """A callee given the pointer value P (non-const pointee) may write
        anything reached through P: terms containing *P, P[i] or P->f."""
        def dead(fact):
            terms = fact[1:3] if fact[0] == "ne" else fact[0:2]
            for t in terms:
                if t is None:
                    continue
                for s in subterms(t):
                    if (s[0] == "*" and s[1] == P) or (s[0] == "[]" and s[1] == P):
                        return True
            return False
        return frozenset(x for x in st if not dead(x))

    MAXD = 8

    @staticmethod
    def consistent(fs):
        """False when the fact set is contradictory (so the path is infeasible)."""
        ords = [x for x in fs if x[0] != "ne"]
        for a, b, k in ords:
            if a is None and b is None and k < 0:
                return False
            if a == b and k < 0:
                return False
        idx = {}
        for a, b, k in ords:
            key = (a, b)
            if key not in idx or k < idx[key]:
                idx[key] = k
        for (a, b), k1 in idx.items():
            k2 = idx.get((b, a))
            if k2 is not None and k1 + k2 < 0:
                return False
        for x in fs:
            if x[0] == "ne":
                _, a, b, k = x
                k1 = idx.get((a, b))
                k2 = idx.get((b, a))
                if k1 is not None and k2 is not None and k1 <= k and k2 <= -k:
                    return False
                if a is None and b is None and k == 0:
                    return False
                if a == b and k == 0:
                    return False
        return True

    def solve(self):
        f = self.f
        u = f.unit

        def transfer1(st, e):
            if e.is_assign:
                lhs = norm(e.kid(0))
                st = self._kill(st, lhs)
                if e.op == "=":
                    rhs = norm(e.kid(1))
                    while rhs[0] == "=":       # chained assignment: value is the inner target
                        rhs = rhs[1]
                    if not mentions(rhs, lhs) and not any(t[0] == "call" for t in subterms(rhs)):
                        st = st | frozenset(self.mk("==", lhs, rhs))
                return st
            if e.is_incdec:
                return self._kill(st, norm(e.kid(0)))
            if e.cls == "DeclStmt":
                for d in e.decls or []:
                    if d.get("init") is not None:
                        lhs = ("v", d["name"], d["id"])
                        rhs = norm(f.elem(d["init"]))
                        if not any(t[0] == "call" for t in subterms(rhs)):
                            st = st | frozenset(self.mk("==", lhs, rhs))
                return st
            if e.cls == "CallExpr":
                for a in e.args:
                    if a is None:
                        continue
                    n = norm(a)
                    if n[0] == "&":
                        st = self._kill(st, n[1])
                    t = u.types.get(a.ty) or {}
                    if t.get("kind") == "ptr":
                        pt = u.types.get(t.get("pointee", "")) or {}
                        if not pt.get("const") and not t.get("pointee", "").startswith("const "):
                            if n[0] != "&":
                                st = self._kill_pointee(st, n)
                return st
            return st

        def ternary(st, e):
            """x = c ? a : b: one state per arm, each with what c says on that side (the smaller-of-two idiom keeps its bound)"""
            co = e.kid(1).strip()
            lhs = norm(e.kid(0))
            outs = []
            for kind, val in ((True, norm(co.kid(1))), (False, norm(co.kid(2)))):
                add = []
                for op, L, R, _, _ in cond_atoms(co.kid(0), kind):
                    if any(t[0] == "call" and t[1] != "strlen" for t in subterms(L)) or any(t[0] == "call" and t[1] != "strlen" for t in subterms(R)):
                        continue
                    add += self.mk(op, L, R)
                n = st | frozenset(add)
                if not self.consistent(n):
                    continue
                while val[0] == "cast":
                    val = val[-1]
                if val == lhs:
                    outs.append(n)
                    continue
                n = self._kill(n, lhs)
                if not mentions(val, lhs) and not any(t[0] == "call" for t in subterms(val)):
                    n = n | frozenset(self.mk("==", lhs, val))
                outs.append(n)
            return outs

        def transfer(S, e):
            if not (e.is_assign or e.is_incdec or e.cls in ("CallExpr", "DeclStmt")):
                return S
            if e.is_assign and e.op == "=" and e.kid(1) is not None and e.kid(1).strip() is not None and e.kid(1).strip().cls == "ConditionalOperator" \
                    and len(e.kid(1).strip().kids) == 3 and all(k is not None for k in e.kid(1).strip().kids):
                out = set()
                for st in S:
                    out.update(ternary(st, e))
                if out:
                    return frozenset(out)
            return frozenset(transfer1(st, e) for st in S)

        def refine(S, cond, kind):
            if kind not in (True, False):
                return S
            add = []
            for op, L, R, _, _ in cond_atoms(cond, kind):
                while L[0] == "=":
                    L = L[1]
                if any(t[0] == "call" and t[1] != "strlen" for t in subterms(L)) or any(t[0] == "call" and t[1] != "strlen" for t in subterms(R)):
                    continue
                add += self.mk(op, L, R)
            if not add:
                return S
            add = frozenset(add)
            out = set()
            for st in S:
                n = st | add
                if self.consistent(n):
                    out.add(n)
            if not out:
                return None
            return frozenset(out)

        def join(A, B):
            J = A | B
            if len(J) > self.MAXD:
                inter = None
                for st in J:
                    inter = st if inter is None else (inter & st)
                return frozenset([inter])
            return J

        self.s = Solver(f, frozenset([self.entry]), transfer, refine, join, limit=400).run()
        return self

    def holds_before(self, elem, op, L, R):
        S = self.s.state_before(elem)
        if S is None:
            return True     # unreachable
        return all(self.implied(st, op, L, R) for st in S)

    @staticmethod
    def implied(st, op, L, R):
        for want in Facts.mk(op, L, R):
            if want[0] == "ne":
                if want in st:
                    continue
                _, a, b, k = want
                if ("ne", b, a, -k) in st:
                    continue
                if any(x[0] != "ne" and x[0] == a and x[1] == b and x[2] <= k - 1 for x in st) or \
                   any(x[0] != "ne" and x[0] == b and x[1] == a and x[2] <= -k - 1 for x in st):
                    continue
                return False
            a, b, k = want
            if a is None and b is None:
                if 0 <= k:
                    continue
                return False
            if a == b and k >= 0:
                continue
            if any(x[0] != "ne" and x[0] == a and x[1] == b and x[2] <= k for x in st):
                continue
            # a <= b + k + 1 together with a != b + k + 1
            if any(x[0] != "ne" and x[0] == a and x[1] == b and x[2] <= k + 1 for x in st) and \
               (("ne", a, b, k + 1) in st or ("ne", b, a, -(k + 1)) in st):
                continue
            return False
        return True

    def best_bound(self, elem, L, R):
        """Smallest k with L <= R + k known before elem on every path, or None."""
        S = self.s.state_before(elem)
        if S is None:
            return None
        lb, lc = lin(L)
        rb, rc = lin(R)
        worst = None
        for st in S:
            ks = [x[2] for x in st if x[0] != "ne" and x[0] == lb and x[1] == rb]
            if not ks:
                return None
            k = min(ks) - (rc - lc)
            worst = k if worst is None else max(worst, k)
        return worst
