"""Rules that every property runs on the files it is anchored in (sa/check.py calls `apply` after the property's own rules).

RETVAL   the sign class (0 / positive / negative) of each constant a function returns is what it is on the reference tree
         (sa/retvals.json, generated from the pinned tree by tools/gen_retvals.py).  The library's convention is 0 for success
         and -1 / NULL for failure, with a few functions that answer a count or a flag; `return (0)` turned `return (1)` flips what
         every caller reads.  Compared as sets per function (which statement carries which constant changes with every
         restructuring; what the function can answer does not).
CTOR     a constructor -- a function that returns an object it allocated with malloc -- has stored every member of it that the
         reference constructor stores, on every path to the success return (a member left to chance is read later by code that
         believes it was set: a stale handle, a length, a flag).
DTOR     a destructor releases what the constructor acquired into the object's members, and the object itself, on every path for
         a non-NULL argument.

These are reference rules in the sense of the guidance: "the instances confirmed on today's tree are the reference for any later
change".  A function that is new, or whose shape has changed beyond the comparison's reach, is skipped, not reported.
"""
import json, os
from . import cdb, ir, own
from .ir import norm, show, root_var, subterms
from .dataflow import cond_atoms as cond_atoms_
from .dataflow import Solver

HERE = os.path.dirname(os.path.abspath(__file__))


def _load(name):
    try:
        with open(os.path.join(HERE, name)) as f:
            return json.load(f)
    except (OSError, ValueError):
        return {}


def ret_classes(f):
    out = []
    for r in sorted(f.returns(), key=lambda e: (e.line, e.i)):
        if not r.kids or r.kid(0) is None:
            out.append("void")
            continue
        v = norm(r.kid(0))
        if v[0] == "c" and isinstance(v[1], int):
            out.append("0" if v[1] == 0 else ("+" if v[1] > 0 else "-"))
        elif r.kid(0).strip() is not None and (r.kid(0).strip().null or r.kid(0).null):
            out.append("0")
        else:
            out.append("v")
    return out


def used_params(f):
    """Names of the parameters the function's body mentions at all (a `(void)x;` counts: it says the parameter is unused on purpose)."""
    ids = {p["id"]: p["name"] for p in f.params}
    used = set()
    for e in f.all_elems():
        if e.cls == "DeclRefExpr" and e.decl and e.decl.get("id") in ids:
            used.add(ids[e.decl["id"]])
    return sorted(used)


def ctor_info(f):
    """(object variable, record name, members stored on every path to each success return) for a function that returns an
    object it allocated; None otherwise."""
    u = f.unit
    objs = {}
    for e in f.all_elems():
        if e.is_assign and e.op == "=" and norm(e.kid(0))[0] == "v":
            r = e.kid(1).strip() if e.kid(1) is not None else None
            while r is not None and r.cls == "BinaryOperator" and r.op == "=":
                r = r.kid(1).strip()
            if r is not None and r.cls == "CallExpr" and r.callee in ("malloc",):
                t = u.types.get(e.kid(0).ty) or {}
                pt = u.types.get(t.get("pointee", "")) or {}
                if pt.get("kind") in ("struct", "record") and pt.get("record"):
                    objs[norm(e.kid(0))] = pt["record"]
    rets = [r for r in f.returns() if r.kids and r.kid(0) is not None and norm(r.kid(0)) in objs]
    if not rets:
        return None
    X = norm(rets[0].kid(0))
    rec = objs[X]
    fields = [m["name"] for m in (u.records.get(rec) or {}).get("fields", [])]
    if not fields:
        return None

    def tr(st, e):
        if e.is_assign:
            lhs = norm(e.kid(0))
            for t in subterms(lhs):
                pass
            if lhs == X:
                return frozenset()
            # X->m = ..., X->m.k = ..., X->m[i] = ...
            n = lhs
            while n[0] in (".", "[]") and not (n[0] == "." and n[1] == ("*", X)):
                n = n[1]
            if n[0] == "." and n[1] == ("*", X):
                return st | frozenset([n[2]])
            # chained assignment a = b = 0 where an inner target is a member
            return st
        if e.cls == "CallExpr":
            for a in e.args:
                if a is None:
                    continue
                n = norm(a)
                if n == X and e.callee in ("memset", "memcpy"):
                    return st | frozenset(fields)
                if n[0] == "&":
                    m = n[1]
                    while m[0] in (".", "[]") and not (m[0] == "." and m[1] == ("*", X)):
                        m = m[1]
                    if m[0] == "." and m[1] == ("*", X):
                        st = st | frozenset([m[2]])       # handed to a callee to fill in (TAILQ_INIT-like macros, out-parameters)
        return st
    sv = Solver(f, frozenset(), tr, None, lambda a, b: a & b).run()
    stored = None
    for r in rets:
        st = sv.state_before(r)
        if st is None:
            continue
        stored = st if stored is None else (stored & st)
    if stored is None:
        return None
    # chained assignments (a->x = a->y = 0): clang makes the inner one an element of its own, so both are seen
    return show(X), rec, sorted(stored), fields


def escaped_objects(f):
    """{record name: members stored on every path} for the structs a function allocates (malloc/calloc) and hands on by storing the
    pointer somewhere that outlives the call (an array slot, *out, a member of another object) rather than by returning it.  The
    members are those stored on every path to a return on which the object is still alive (not released) and has been handed on."""
    u = f.unit
    objs = {}
    for e in f.all_elems():
        if e.is_assign and e.op == "=" and norm(e.kid(0))[0] == "v":
            r = e.kid(1).strip() if e.kid(1) is not None else None
            if r is not None and r.cls == "CallExpr" and r.callee in ("malloc", "calloc"):
                t = u.types.get(e.kid(0).ty) or {}
                pt = u.types.get(t.get("pointee", "")) or {}
                if pt.get("kind") in ("struct", "record") and pt.get("record"):
                    objs[norm(e.kid(0))] = (pt["record"], r.callee == "calloc")
    out = {}
    returned = set(norm(r.kid(0)) for r in f.returns() if r.kids and r.kid(0) is not None)
    for X, (rec, zeroed) in objs.items():
        if X in returned:
            continue
        fields = [m["name"] for m in (u.records.get(rec) or {}).get("fields", [])]
        if not fields:
            continue

        def member(n):
            while n[0] in (".", "[]") and not (n[0] == "." and n[1] == ("*", X)):
                n = n[1]
            return n[2] if (n[0] == "." and n[1] == ("*", X)) else None

        def tr(st, e, X=X, fields=fields, zeroed=zeroed):
            got, esc, dead = st
            if e.is_assign:
                lhs = norm(e.kid(0))
                if lhs == X:
                    # a zero-filled object has every member defined, but what the function then stores explicitly is recorded too
                    # (tagged "="): a family or length left at the filler's zero is as wrong as one left undefined
                    return (frozenset(fields) if zeroed else frozenset(), False, False)
                m = member(lhs)
                if m is not None:
                    return (got | frozenset([m, "=" + m]), esc, dead)
                rhs = norm(e.kid(1)) if e.kid(1) is not None else None
                while rhs is not None and rhs[0] == "cast":
                    rhs = rhs[-1]
                if e.op == "=" and rhs == X and not (lhs[0] == "v" and len(lhs) > 2 and lhs[0] == "v" and _is_local(f, lhs)):
                    return (got, True, dead)
                return st
            if e.cls == "CallExpr":
                for a in e.args:
                    if a is None:
                        continue
                    n = norm(a)
                    while n[0] == "cast":
                        n = n[-1]
                    if n == X:
                        if e.callee in ("memset", "memcpy"):
                            got = got | frozenset(fields)
                        elif e.callee and (e.callee == "free" or own.GENERIC_RELEASERS.search(e.callee)):
                            dead = True
                    m = member(n[1]) if n[0] == "&" else (member(n) if n[0] in (".", "[]") else None)
                    if m is not None and (n[0] == "&" or (u.types.get(a.ty) or {}).get("kind") in ("array", "ptr")):
                        if n[0] == "&" or (u.types.get(a.ty) or {}).get("kind") == "array":
                            got = got | frozenset([m, "=" + m])       # handed to a callee to fill in
                return (got, esc, dead)
            return st

        def join(a, b):
            return (a[0] & b[0], a[1] or b[1], a[2] and b[2])
        sv = Solver(f, (frozenset(fields), False, True), tr, None, join).run()
        stored = None
        for r in f.returns():
            st = sv.state_before(r)
            if st is None or st[2] or not st[1] or own.is_failure_return(r):
                continue
            stored = st[0] if stored is None else (stored & st[0])
        if stored is not None:
            out[rec] = sorted(stored)
    return out


def _is_local(f, t):
    ids = getattr(f, "_local_ids", None)
    if ids is None:
        ids = set(p["id"] for p in f.params)
        for e in f.all_elems():
            if e.cls == "DeclStmt":
                for d in e.decls or []:
                    if isinstance(d, dict) and d.get("kind") == "local" and not d.get("static"):
                        ids.add(d["id"])
        f._local_ids = ids
    return len(t) > 2 and t[2] in ids


def dtor_info(f, rel):
    """(releases made on every path for a non-NULL argument: member names and 'self') for a function named like a destructor
    whose first parameter is a pointer to a struct; None otherwise."""
    u = f.unit
    if not f.params:
        return None
    p = f.params[0]
    t = u.types.get(p["ty"]) or {}
    pt = u.types.get(t.get("pointee", "")) or {}
    if t.get("kind") != "ptr":
        return None
    X = ("v", p["name"], p["id"])
    if pt.get("kind") not in ("struct", "record"):
        # `void * cookie` re-typed by `struct T * x = cookie;`
        X2 = None
        for e in f.all_elems():
            if e.cls == "DeclStmt":
                for d in e.decls or []:
                    if isinstance(d, dict) and d.get("init") and norm(f.elem(d["init"])) == X:
                        dt = u.types.get(d.get("ty")) or {}
                        if dt.get("kind") == "ptr" and (u.types.get(dt.get("pointee", "")) or {}).get("kind") in ("struct", "record"):
                            X2 = ("v", d["name"], d["id"])
        if X2 is None:
            return None
        X = X2

    # other names for the argument: `T * k = (void *)arg;`
    names = {X}
    for e in f.all_elems():
        if e.cls == "DeclStmt":
            for d in e.decls or []:
                if isinstance(d, dict) and d.get("init") and norm(f.elem(d["init"])) in names:
                    names.add(("v", d["name"], d["id"]))
        elif e.is_assign and e.op == "=" and norm(e.kid(0))[0] == "v" and norm(e.kid(1)) in names:
            names.add(norm(e.kid(0)))

    def member(n):
        """dotted member path of X->a.b.c, or None"""
        parts = []
        while isinstance(n, tuple) and n and n[0] == "." and len(n) == 3:
            parts.append(n[2])
            n = n[1]
        if parts and n == ("*", X):
            return ".".join(reversed(parts))
        return None

    def is_rel(e):
        return e.cls == "CallExpr" and e.callee and (e.callee in rel or own.GENERIC_RELEASERS.search(e.callee) or e.callee == "close")

    def tr(st, e):
        if is_rel(e):
            for a in e.args:
                if a is None:
                    continue
                n = norm(a)
                if e.callee == "close":
                    if member(n) is not None:
                        st = st | frozenset(["close:" + member(n)])
                    continue
                if n in names:
                    st = st | frozenset(["self"])
                elif member(n) is not None:
                    st = st | frozenset([member(n)])
                elif n[0] == "&" and member(n[1]) is not None:
                    st = st | frozenset([member(n[1])])
        return st
    from .dataflow import cond_atoms as _ca

    def rf(st, cond, kind):
        # the argument is not NULL: an edge that says it is cannot be taken
        if kind in (True, False):
            for op, L, R, _, _ in _ca(cond, kind):
                if L == X and R == ("c", 0) and op == "==":
                    return None
        return st
    sv = Solver(f, frozenset(), tr, rf, lambda a, b: a & b).run()
    # the state at the function's exit, on the paths where the argument was not NULL and members were not NULL
    ends = []
    for r in f.returns():
        ends.append(sv.state_before(r))
    for pb in f.blocks[f.exit].preds:
        if not f.blocks[pb].noreturn:
            ends.append(sv.state_at_end(pb))
    # paths that return early for a NULL argument release nothing: take the union over exits of what any exit guarantees, i.e.
    # the releases guaranteed at the *last* exit (the one reached by the non-NULL path)
    ends = [x for x in ends if x is not None]
    if not ends:
        return None
    best = frozenset.intersection(*[frozenset(x) for x in ends])
    # releases that happen only under `if (X->m != NULL)` are conditional in the must-analysis; count a member as released
    # when a release of it exists and the only conditions between it and the entry are NULL tests of X or of that member
    cond_rel = set()
    from .dataflow import cond_atoms
    for c in f.calls():
        if not is_rel(c):
            continue
        for a in c.args:
            if a is None:
                continue
            n = norm(a)
            m = None
            if n == X and c.callee != "close":
                m = "self"
            elif member(n) is not None:
                m = ("close:" if c.callee == "close" else "") + member(n)
            if m is None:
                continue
            at = [(op, L, R) for cond, truth in f.edge_conds(c) for op, L, R, _, _ in cond_atoms(cond, truth)]
            absent = ("c", -1) if c.callee == "close" else ("c", 0)
            if all(R == absent and op in ("!=",) and (L == X or L == n) for op, L, R in at if not (L == X and R == ("c", 0))) and \
                    all(op == "!=" for op, L, R in at if L == X and R == ("c", 0)):
                cond_rel.add(m)
    return show(X), sorted(set(best) | cond_rel)


def uninit_reads(f):
    """[(read element, variable name)] for reads of a scalar or pointer local that is not assigned on every path before the read
    (definite assignment: a must-analysis; taking the variable's address counts as assigning it -- out-parameters)."""
    u = f.unit
    locs = {}
    for e in f.all_elems():
        if e.cls == "DeclStmt":
            for d in e.decls or []:
                if isinstance(d, dict) and d.get("kind") == "local" and not d.get("init") and not d.get("static"):
                    if (u.types.get(d.get("ty")) or {}).get("kind") in ("int", "ptr", "enum", "bool", "float"):
                        locs[d["id"]] = d["name"]
    if not locs:
        return [], 0

    def tr(st, e):
        if (e.is_assign and e.op == "=") or (e.cls == "UnaryOperator" and e.op == "&"):
            t = norm(e.kid(0))
            if t[0] == "v" and len(t) > 2 and t[2] in locs:
                return st | frozenset([t[2]])
        return st
    sv = Solver(f, frozenset(), tr, None, lambda a, b: a & b).run()
    out = []
    reads = [0]

    def visit(e, st):
        if e.cls == "ImplicitCastExpr" and e.op == "LValueToRValue":
            k = e.kid(0).strip() if e.kid(0) is not None else None
            if k is not None and k.cls == "DeclRefExpr":
                t = norm(k)
                if t[0] == "v" and len(t) > 2 and t[2] in locs:
                    reads[0] += 1
                    if t[2] not in st:
                        out.append((e, t[1]))
    sv.visit(visit)
    return out, reads[0]


LIBC_NEGATIVE_STATUS = {"asprintf": {-1}, "vasprintf": {-1}, "libcperciva_asprintf": {-1}, "socket": {-1}, "accept": {-1}, "open": {-1}, "recv": {-1}, "send": {-1},
                        "read": {-1}, "write": {-1}, "fcntl": {-1}}

def result_tests(prog, f):
    """[(condition element, call, constant compared with, constants the callee returns)] for comparisons `g(...) == c` / `!= c` in f
    where g is a function of the analysed program all of whose returns are integer constants and c is not one of them."""
    out = []
    n = 0
    for b in f.blocks.values():
        if b.cond is None or len(b.succs) != 2:
            continue
        for op, L, R, Le, _ in cond_atoms_(b.cond, True):
            k = Le.strip() if Le is not None else None
            if k is None or k.cls != "CallExpr" or not k.callee or R[0] != "c" or op not in ("==", "!=") or not isinstance(R[1], int):
                continue
            if k.callee in LIBC_NEGATIVE_STATUS:
                # answers a non-negative result or one negative status: an equality test with another negative constant never holds
                n += 1
                if R[1] < 0 and R[1] not in LIBC_NEGATIVE_STATUS[k.callee]:
                    out.append((b.cond, k, R[1], sorted(LIBC_NEGATIVE_STATUS[k.callee]) + ["a non-negative result"]))
                continue
            g = prog.resolve(f, k.callee) if hasattr(prog, "resolve") else None
            if g is None or g.file.startswith("/"):
                continue
            vals = [norm(r.kid(0)) for r in g.returns() if r.kids]
            if not vals or not all(v[0] == "c" and isinstance(v[1], int) for v in vals):
                continue
            n += 1
            ks = sorted(set(v[1] for v in vals))
            if R[1] not in ks:
                out.append((b.cond, k, R[1], ks))
    return out, n


def narrow_masks(f):
    """[element] for `~c` computed in a type narrower than the value it is then combined with by & (the complement is widened with
    zero bits, so the mask also clears the whole upper part: `n & ~7U` with a 64-bit n keeps 32 bits of it)."""
    u = f.unit
    out = []
    n = 0
    for e in f.all_elems():
        if e.cls == "BinaryOperator" and e.op in ("&", "&="):
            n += 1
            for k in (e.kid(0), e.kid(1)):
                if k is None or k.cls != "ImplicitCastExpr" or k.op != "IntegralCast":
                    continue
                inner = k.kid(0)
                while inner is not None and inner.cls == "ParenExpr":
                    inner = inner.kid(0)
                if inner is None or inner.cls != "UnaryOperator" or inner.op != "~":
                    continue
                wt, nt = u.types.get(k.ty) or {}, u.types.get(inner.ty) or {}
                if (wt.get("size") or 0) > (nt.get("size") or 0) and nt.get("signed") is False:
                    out.append(e)
    return out, n


def spurious_failures(f):
    """Failure returns of f reachable from its entry without passing an edge on which some call has just reported failure
    (`g(..) != 0`, `== NULL`, `== -1`, `< 0`); None if f has no failure return.  A function for which this list is empty fails only
    when something it called failed."""
    fails = [r for r in f.returns() if own.is_failure_return(r)]
    if not fails:
        return None
    cut = set()
    u = f.unit
    held = {}          # variable -> [assignment elements `v = call(...)`]
    for e in f.all_elems():
        if e.is_assign and e.op == "=" and norm(e.kid(0))[0] == "v" and e.kid(1) is not None and e.kid(1).strip() is not None and e.kid(1).strip().cls == "CallExpr":
            held.setdefault(norm(e.kid(0)), []).append(e)
    for b in f.blocks.values():
        if b.cond is None or len(b.succs) != 2:
            continue
        for truth, si in ((True, 0), (False, 1)):
            for op, L, R, Le, _ in cond_atoms_(b.cond, truth):
                k = Le.strip() if Le is not None else None
                if (k is None or k.cls != "CallExpr") and L in held:
                    # `v = g(..); if (v == NULL)`: the variable holds a call's answer
                    ds = [d for d in held[L] if f.dominates(d, b.cond) or d.block.id == b.id]
                    k = ds[-1].kid(1).strip() if ds else None
                if k is None or k.cls != "CallExpr":
                    continue
                isptr = (u.types.get(k.ty) or {}).get("kind") == "ptr"
                failed = (isptr and op == "==" and R == ("c", 0)) or \
                    (not isptr and ((op == "!=" and R == ("c", 0)) or (op == "==" and R == ("c", -1)) or (op == "<" and R == ("c", 0))))
                if failed:
                    cut.add((b.id, si))
    seen, work = set(), [f.entry]
    while work:
        nb = work.pop()
        if nb in seen:
            continue
        seen.add(nb)
        for si, sx in enumerate(f.blocks[nb].succs):
            if sx is not None and (nb, si) not in cut:
                work.append(sx)
    return [r for r in fails if r.block.id in seen]


FIRST_GETTERS = {"ptrheap_getmin": "ptrheap_deletemin", "timerqueue_getmin": "timerqueue_deletemin", "elasticqueue_get": "elasticqueue_delete"}


def drain_loops(f):
    """[(loop head block, missing)] for loops of the form `while ((x = FIRST(Q)) != NULL) { ... }` -- FIRST being STAILQ_FIRST / TAILQ_FIRST
    or one of the library's "smallest element" getters -- in which some path from the body back to the head does not pass the
    matching removal (STAILQ_REMOVE_HEAD / TAILQ_REMOVE / *_deletemin): the loop would look at the same element again, for ever,
    releasing it each time."""
    out = []
    n = 0
    for b in f.blocks.values():
        if b.cond is None or len(b.succs) != 2 or b.succs[0] is None:
            continue
        if b.id not in f.reach_from(b.succs[0]):
            continue            # not a loop head
        firsts = [m for e in b.elems for m in e.macro if m in ("STAILQ_FIRST", "TAILQ_FIRST", "STAILQ_EMPTY", "TAILQ_EMPTY")]
        getter = None
        for op, L, R, Le, _ in cond_atoms_(b.cond, True):
            k = Le.strip() if Le is not None else None
            if op == "!=" and R == ("c", 0) and k is not None and k.cls == "CallExpr" and k.callee in FIRST_GETTERS:
                getter = k.callee
        if not firsts and getter is None:
            continue
        if not any(op == "!=" and R == ("c", 0) for op, L, R, _, _ in cond_atoms_(b.cond, True)):
            continue
        n += 1

        def removes(e):
            if firsts and any(m in ("STAILQ_REMOVE_HEAD", "TAILQ_REMOVE", "STAILQ_REMOVE") for m in e.macro):
                return True
            return e.cls == "CallExpr" and getter is not None and e.callee == FIRST_GETTERS[getter]
        rem_blocks = set(x.block.id for x in f.all_elems() if removes(x))
        # a way from the body's first block back to the head that avoids every removing block
        seen, work, bad = set(), [b.succs[0]], False
        while work and not bad:
            nb = work.pop()
            if nb is None or nb in seen or nb in rem_blocks:
                continue
            seen.add(nb)
            if nb == b.id:
                bad = True
                break
            if any(e.cls == "ReturnStmt" for e in f.blocks[nb].elems) or f.blocks[nb].noreturn:
                continue
            work.extend(f.blocks[nb].succs)
        if bad:
            out.append(b)
    return out, n


def alloc_sizes(f):
    """[(call, bytes asked, bytes of the object)] for `p = malloc(c)` / `calloc(a, b)` with constant arguments assigned to a pointer to a
    struct larger than what was asked for."""
    u = f.unit
    out = []
    n = 0
    for e in f.all_elems():
        if not (e.is_assign and e.op == "=" and e.kid(1) is not None):
            continue
        r = e.kid(1).strip()
        if r is None or r.cls != "CallExpr" or r.callee not in ("malloc", "calloc"):
            continue
        pt = u.types.get((u.types.get(e.kid(0).ty) or {}).get("pointee", "")) or {}
        if pt.get("kind") not in ("struct", "record") or not pt.get("size"):
            continue
        args = [norm(a) for a in r.args if a is not None]
        if not args or not all(a[0] == "c" and isinstance(a[1], int) for a in args):
            continue
        n += 1
        asked = 1
        for a in args:
            asked *= a[1]
        if asked < pt["size"]:
            out.append((r, asked, pt["size"]))
    return out, n


PURE_LIBC = {"strlen", "memcmp", "strcmp", "strncmp", "strcasecmp", "strncasecmp", "strchr", "strrchr", "strstr", "strcspn", "strspn", "memchr",
             "__errno_location", "__builtin_expect", "__builtin_constant_p"}
# libc functions that do something besides answering: store through a pointer argument, allocate or release, perform I/O, change
# process state.  (A closed list: a callee that is neither here, nor pure, nor defined in the analysed units is left alone.)
EFFECT_LIBC = {"strftime", "memcpy", "memmove", "memset", "strcpy", "strncpy", "strcat", "strncat", "sprintf", "snprintf", "vsnprintf", "vsprintf", "sscanf",
               "read", "write", "recv", "send", "sendto", "recvfrom", "close", "open", "fopen", "fclose", "fread", "fwrite", "fgets", "fputs", "fprintf", "printf",
               "fflush", "fseek", "free", "malloc", "calloc", "realloc", "posix_memalign", "gmtime_r", "localtime_r", "setsockopt", "getsockopt", "fcntl",
               "poll", "select", "clock_gettime", "gettimeofday", "connect", "accept", "bind", "listen", "socket", "shutdown", "getaddrinfo", "freeaddrinfo",
               "inet_ntop", "inet_pton", "tcsetattr", "tcgetattr", "signal", "sigaction", "atexit", "setvbuf", "unlink", "rename", "fsync", "ftruncate",
               "strtol", "strtoul", "strtoll", "strtoull", "strtoimax", "strtoumax", "strtod", "getline", "qsort", "srandom", "random", "rand", "srand",
               "setuid", "setgid", "setgroups", "chdir", "kill", "fork", "waitpid", "pipe", "dup", "dup2", "insecure_memzero", "explicit_bzero"}
_impure_memo = {}


def has_effects(prog, g, depth=0):
    """g stores into something other than its own locals, or calls something that does (or that is not known)."""
    k = (g.unit.path, g.name)
    if k in _impure_memo:
        return _impure_memo[k]
    _impure_memo[k] = False
    locs = set()
    for e in g.all_elems():
        if e.cls == "DeclStmt":
            for d in e.decls or []:
                if isinstance(d, dict) and d.get("kind") == "local" and not d.get("static"):
                    locs.add(d["id"])
    res = False
    for e in g.all_elems():
        if e.is_assign or e.is_incdec:
            t = norm(e.kid(0))
            if not (t[0] == "v" and len(t) > 2 and t[2] in locs):
                res = True
                break
        if e.cls == "CallExpr" and e.callee in EFFECT_LIBC:
            res = True
            break
        if e.cls == "CallExpr" and e.callee and e.callee not in PURE_LIBC and e.callee != "__assert_fail":
            h = prog.resolve(g, e.callee)
            # a callee outside the analysed units is not held against the caller (the rule reports what it can show)
            if h is not None and depth < 4 and has_effects(prog, h, depth + 1):
                res = True
                break
    _impure_memo[k] = res
    return res


def assert_effects(prog, f):
    """[(assert condition, what)] for assertions whose argument does something: an assignment, an increment, or a call of a function
    that has effects -- compiled with NDEBUG the work disappears with the check."""
    out = []
    n = 0
    for b in f.blocks.values():
        if b.cond is None or len(b.succs) != 2:
            continue
        tg = [f.blocks[x] for x in b.succs if x is not None]
        if not any(any(e.cls == "CallExpr" and e.callee == "__assert_fail" for e in t.elems) for t in tg):
            continue
        n += 1
        for e in b.elems:
            if "assert" not in e.macro:
                continue
            if e.is_assign or e.is_incdec:
                out.append((b.cond, "an assignment (`%s`)" % e.text[:30]))
            elif e.cls == "CallExpr" and e.callee in EFFECT_LIBC:
                out.append((b.cond, "a call of %s(), which has effects" % e.callee))
            elif e.cls == "CallExpr" and e.callee and e.callee not in PURE_LIBC:
                h = prog.resolve(f, e.callee)
                if h is not None and has_effects(prog, h):
                    out.append((b.cond, "a call of %s(), which has effects" % e.callee))
    return out, n


def valist_uses(f):
    """[(call, va_list name)] for calls that hand a va_list on after an earlier call already walked it on some path, with no va_end +
    va_start (or va_copy into it) in between; and the number of hand-overs looked at.  A may-analysis over {fresh, used}: C leaves
    the value of a va_list indeterminate once another function has applied va_arg to it."""
    lists = set()
    for c in f.calls(("__builtin_va_start",)):
        t = norm(c.arg(0)) if c.args else None
        while t is not None and t[0] in ("cast", "&") and len(t) > 1:
            t = t[-1]
        if t is not None and t[0] == "v" and len(t) > 2:
            lists.add(t[2])
    if not lists:
        return [], 0

    def lid(a):
        t = norm(a) if a is not None else None
        while t is not None and t[0] in ("cast", "&") and len(t) > 1:
            t = t[-1]
        return t[2] if t is not None and t[0] == "v" and len(t) > 2 and t[2] in lists else None

    def tr(st, e):
        if e.cls != "CallExpr" or not e.callee:
            return st
        if e.callee in ("__builtin_va_start", "__builtin_va_copy"):
            i = lid(e.arg(0)) if e.args else None
            return frozenset(x for x in st if x != i) if i is not None else st
        if e.callee == "__builtin_va_end":
            return st
        add = [lid(a) for a in e.args]
        return st | frozenset(i for i in add if i is not None)
    sv = Solver(f, frozenset(), tr, None, lambda a, b: a | b).run()
    out, n = [], [0]

    def visit(e, st):
        if e.cls == "CallExpr" and e.callee and not e.callee.startswith("__builtin_va_"):
            for a in e.args:
                i = lid(a)
                if i is not None:
                    n[0] += 1
                    if i in st:
                        out.append((e, norm(a)))
    sv.visit(visit)
    return out, n[0]


WIPERS = ("insecure_memzero", "explicit_bzero", "memset_s")


def wiped_reads(f):
    """[(reading element, array name, wipe element)] for reads of a local array made, on some path, after the whole array was wiped
    (insecure_memzero over its full size) and before anything was stored into it again -- directly or through a local pointer that
    holds the array's address at that point (pointer values followed flow-sensitively: `K = khash`).  A wipe says the contents are
    dead; a later read takes zeros for data.  Also returns the number of wipes looked at."""
    u = f.unit
    arrs = {}
    for e in f.all_elems():
        if e.cls == "DeclStmt":
            for d in e.decls or []:
                if isinstance(d, dict) and d.get("kind") == "local" and not d.get("static"):
                    t = u.types.get(d.get("ty")) or {}
                    if t.get("kind") == "array" and t.get("size"):
                        arrs[d["id"]] = (d["name"], t["size"])
    if not arrs:
        return [], 0

    def base(t):
        """(kind, id) of the object a pointer-valued term designates: ('a', array id) or ('p', pointer variable id)"""
        while t[0] == "cast":
            t = t[-1]
        if t[0] == "&" and t[1][0] == "[]":
            return base(t[1][1])
        if t[0] == "+" and len(t) == 3:
            return base(t[1])
        if t[0] == "v" and len(t) > 2:
            return ("a", t[2]) if t[2] in arrs else ("p", t[2])
        return None

    def targets(st, t):
        b = base(t)
        if b is None:
            return set()
        if b[0] == "a":
            return {b[1]}
        return {a for (p, a) in st[1] if p == b[1]}

    def full_wipe(e):
        if e.cls == "CallExpr" and e.callee in WIPERS and e.arg(0) is not None and e.arg(1) is not None:
            b = base(norm(e.arg(0)))
            n = norm(e.arg(1 if e.callee != "memset_s" else 3) if e.callee != "memset_s" or len(e.args) > 3 else e.arg(1))
            if b is not None and b[0] == "a" and n[0] == "c" and n[1] == arrs[b[1]][1] and norm(e.arg(0)) in (("v", arrs[b[1]][0], b[1]), ("&", ("[]", ("v", arrs[b[1]][0], b[1]), ("c", 0)))):
                return b[1]
        return None

    def is_const_ptr(a):
        t = u.types.get(a.ty) or {}
        pt = t.get("pointee", "")
        return t.get("kind") == "ptr" and (pt.startswith("const ") or (u.types.get(pt) or {}).get("const"))

    def tr(st, e):
        wiped, al = st
        if e.cls == "CallExpr" and e.callee:
            w = full_wipe(e)
            if w is not None:
                return (wiped | frozenset([(w, e.pos)]), al)
            # a call handed the array through a pointer to non-const may store into it
            for a in e.args:
                if a is None:
                    continue
                if (u.types.get(a.ty) or {}).get("kind") in ("ptr", "array") and not is_const_ptr(a):
                    for x in targets(st, norm(a)):
                        wiped = frozenset(y for y in wiped if y[0] != x)
            return (wiped, al)
        if e.is_assign:
            L = norm(e.kid(0))
            if L[0] == "v" and len(L) > 2 and L[2] not in arrs:
                al = frozenset(x for x in al if x[0] != L[2])
                if e.op == "=" and e.kid(1) is not None:
                    b = base(norm(e.kid(1)))
                    if b is not None:
                        al = al | (frozenset([(L[2], b[1])]) if b[0] == "a" else frozenset((L[2], a2) for (p2, a2) in st[1] if p2 == b[1]))
                return (wiped, al)
            if L[0] in ("[]", "*"):
                for x in targets(st, L[1]):
                    wiped = frozenset(y for y in wiped if y[0] != x)
                return (wiped, al)
        if e.cls == "DeclStmt":
            for d in e.decls or []:
                if isinstance(d, dict) and d.get("init") and d.get("id") not in arrs:
                    b = base(norm(f.elem(d["init"])))
                    if b is not None:
                        al = al | (frozenset([(d["id"], b[1])]) if b[0] == "a" else frozenset((d["id"], a2) for (p2, a2) in st[1] if p2 == b[1]))
            return (wiped, al)
        return st
    sv = Solver(f, (frozenset(), frozenset()), tr, None, lambda a, b: (a[0] | b[0], a[1] | b[1])).run()
    out, nw = [], [0]
    seen = set()

    def visit(e, st):
        if full_wipe(e) is not None:
            nw[0] += 1
            return
        if not st[0]:
            return
        hit = set()
        if e.cls == "ImplicitCastExpr" and e.op == "LValueToRValue" and e.kid(0) is not None:
            k = e.kid(0).strip()
            if k is not None and k.cls in ("ArraySubscriptExpr", "UnaryOperator"):
                t = norm(k)
                if t[0] in ("[]", "*"):
                    hit = targets(st, t[1])
        elif e.cls == "CallExpr" and e.callee and e.callee not in WIPERS:
            for a in e.args:
                if a is not None and (u.types.get(a.ty) or {}).get("kind") in ("ptr", "array") and is_const_ptr(a):
                    hit |= targets(st, norm(a))
        for (w, pos) in st[0]:
            if w in hit and (w, e.line) not in seen:
                seen.add((w, e.line))
                out.append((e, arrs[w][0], pos))
    sv.visit(visit)
    return out, nw[0]


ERRNO_TERM = ("*", ("call", "__errno_location"))
ERRNO_CONVERSIONS = ("strtol", "strtoul", "strtoll", "strtoull", "strtoimax", "strtoumax", "strtod", "strtof", "strtold")


def stale_errno_tests(f):
    """[(condition element, conversion call)] for tests of errno that judge a strto* conversion made, on some path, without errno
    having been cleared since the function was entered or since the last other call: the conversion sets errno only when it
    fails, so the test then sees whatever an earlier failure left there (a valid numeral is rejected after an unrelated ERANGE).
    May-analysis over {clean, converted-clean, converted-stale, other}; and the number of such tests looked at."""
    convs = list(f.calls(ERRNO_CONVERSIONS))
    if not convs:
        return [], 0

    def tr(st, e):
        if e.is_assign and e.op == "=" and norm(e.kid(0)) == ERRNO_TERM:
            return frozenset([("clean", None)]) if norm(e.kid(1)) == ("c", 0) else frozenset([("other", None)])
        if e.cls == "CallExpr" and e.callee:
            if e.callee in ERRNO_CONVERSIONS:
                return frozenset(("conv-ok", e.pos) if k == "clean" or k == "conv-ok" else ("conv-stale", e.pos) for k, _ in st)
            if e.callee in PURE_LIBC or e.callee.startswith("__builtin") or e.callee in ("__errno_location", "__ctype_b_loc", "isspace", "isdigit"):
                return st
            return frozenset([("other", None)])
        return st
    sv = Solver(f, frozenset([("entry", None)]), tr, None, lambda a, b: a | b).run()
    out, n = [], 0
    bypos = {c.pos: c for c in convs}
    for b in f.blocks.values():
        if b.cond is None:
            continue
        if not any(L == ERRNO_TERM or R == ERRNO_TERM for op, L, R, _, _ in cond_atoms_(b.cond, True)):
            continue
        st = sv.state_before(b.cond)
        if st is None:
            continue
        if any(k.startswith("conv") for k, _ in st):
            n += 1
        for k, pos in st:
            if k == "conv-stale":
                out.append((b.cond, bypos.get(pos)))
                break
    return out, n


def imalloc_tests(f):
    """[call] for `imalloc(n, size)` results taken for a failed allocation without regard to n: imalloc answers NULL for n == 0 by
    design, so a NULL is a failure only where n > 0 is known (the IMALLOC macro tests both)."""
    out = []
    n = 0
    for b in f.blocks.values():
        if b.cond is None or len(b.succs) != 2:
            continue
        for truth in (True, False):
            for op, L, R, Le, _ in cond_atoms_(b.cond, truth):
                k = Le.strip() if Le is not None else None
                if k is None or k.cls != "CallExpr" or k.callee != "imalloc" or op != "==" or R != ("c", 0):
                    continue
                n += 1
                cnt = norm(k.arg(0)) if k.arg(0) is not None else None
                at = [(o, l, r) for o, l, r, _, _ in cond_atoms_(b.cond, truth)] + [(o, l, r) for c2, t2 in f.edge_conds(b.cond) for o, l, r, _, _ in cond_atoms_(c2, t2)]
                # ... or tested right after, before anything else is done on that edge: (p = imalloc(n, ..)) == NULL && n > 0
                sx = b.succs[0] if truth else b.succs[1]
                if sx is not None and f.blocks[sx].cond is not None and not any(e.cls == "CallExpr" or e.is_assign for e in f.blocks[sx].elems):
                    at += [(o, l, r) for o, l, r, _, _ in cond_atoms_(f.blocks[sx].cond, True)] + [(o, l, r) for o, l, r, _, _ in cond_atoms_(f.blocks[sx].cond, False)]
                if not any(l == cnt and ((o == ">" and r == ("c", 0)) or (o == "!=" and r == ("c", 0)) or (o == ">=" and r == ("c", 1)) or (o == "<=" and r == ("c", 0)) or (o == "==" and r == ("c", 0))) for o, l, r in at):
                    out.append(k)
    return out, n


def apply(rep, pid, files, tier):
    """Run the reference rules on the .c files among `files` that are library units."""
    from . import cdb as _cdb
    ref_ret = _load("retvals.json")
    ref_ct = _load("ctors.json")
    ref_dt = _load("dtors.json")
    ref_pm = _load("params.json")
    ref_fp = _load("failpaths.json")
    built = set(u for u, _ in cdb.makefile_rules())
    units = [p for p in files if p.endswith(".c") and p in built]      # files that are only #included by others are seen through those
    if not units:
        return
    try:
        # these rules go by per-function summaries and reference tables of the pinned tree's functions: the view without the
        # inlining of new helpers (a helper is followed through its own summary)
        prog = ir.Program(units, cdb.HOST, inline_helpers=False)
        # ... except what a constructor stores: a store made through a new helper (`settime(r, tv)`) is a store the constructor
        # makes, and is seen where the helper is inlined
        prog_i = ir.Program(units, cdb.HOST)
        if not any(u_.inlined for u_ in prog_i.units.values()):
            prog_i = None
    except cdb.AnalysisBroken:
        raise
    except Exception:
        return
    acq = own.discover_acquirers(prog)
    rel = set(x for v in acq.values() for x in v) | {"free"}
    n = 0
    for up in units:
        if up not in prog.units:
            continue
        u = prog.unit(up)
        for f in u.funcs:
            if f.file != up and not (f.file in files):
                continue
            key = f.name
            # UNINIT (no reference needed)
            if f.file == up or f.file in files:
                bad, nreads = uninit_reads(f)
                if nreads:
                    n += 1
                    seen_v = set()
                    for e, name in bad:
                        if name in seen_v:
                            continue
                        seen_v.add(name)
                        rep.bad("UNINIT", "%s: %s is read" % (f.name, name), e.where,
                                "a path reaches this read of the local `%s` without any assignment to it (nor its address taken): its value is whatever the stack held"
                                % name, function=f.name, construct="uninit:" + name)
                    if not bad:
                        rep.ok("UNINIT", "%s: every read of a local follows an assignment to it" % f.name, f.loc, "%d reads" % nreads)
            # ASSERT-effect, IMALLOC-zero (no reference needed)
            if f.file == up or f.file in files:
                bad, na = assert_effects(prog, f)
                if na:
                    n += 1
                    for ce, what in bad:
                        rep.bad("ASSERT-effect", "%s: `%s`" % (f.name, ce.text[:50]), ce.where,
                                "the asserted expression contains %s: in a build with NDEBUG the assertion, and this work with it, is compiled out" % what,
                                function=f.name, construct="assert-effect")
                    if not bad:
                        rep.ok("ASSERT-effect", "%s: assertions only look" % f.name, f.loc, "%d assertions" % na)
                bad, ni = imalloc_tests(f)
                if ni:
                    n += 1
                    for c in bad:
                        rep.bad("IMALLOC-zero", "%s: `%s`" % (f.name, c.text[:50]), c.where,
                                "a NULL from imalloc() is taken for a failed allocation without a test that the count is non-zero: imalloc answers NULL "
                                "for zero records by design", function=f.name, construct="imalloc-zero")
                    if not bad:
                        rep.ok("IMALLOC-zero", "%s: NULL from imalloc is a failure only for a non-zero count" % f.name, f.loc, "%d tests" % ni)
            # ERRNO-FRESH (no reference needed)
            if f.file == up or f.file in files:
                bad, ne = stale_errno_tests(f)
                if ne:
                    n += 1
                    for ce, cv in bad:
                        rep.bad("ERRNO-FRESH", "%s: `%s`" % (f.name, ce.text[:40]), ce.where,
                                "this test of errno judges %s, which on some path was made without errno having been set to 0 first: the conversion sets errno only "
                                "when it fails, so a valid numeral is rejected whenever an earlier failure left ERANGE there" % (cv.text[:40] if cv is not None else "a conversion"),
                                function=f.name, construct="errno-stale")
                    if not bad:
                        rep.ok("ERRNO-FRESH", "%s: errno is cleared before each conversion it is tested after" % f.name, f.loc, "%d tests" % ne)
            # WIPED-READ (no reference needed)
            if f.file == up or f.file in files:
                bad, nw = wiped_reads(f)
                if nw:
                    n += 1
                    for e, name, pos in bad:
                        rep.bad("WIPED-READ", "%s: `%s` after %s was wiped" % (f.name, e.text[:40], name), e.where,
                                "a path reaches this read of the local array `%s` (possibly through a pointer that holds its address) after insecure_memzero() has wiped all of it "
                                "and before anything is stored into it again: zeros are taken for the data that was there" % name, function=f.name, construct="wiped-read:" + name)
                    if not bad:
                        rep.ok("WIPED-READ", "%s: nothing reads a local array after it has been wiped" % f.name, f.loc, "%d wipes" % nw)
            # VALIST (no reference needed)
            if f.file == up or f.file in files:
                bad, nv = valist_uses(f)
                if nv:
                    n += 1
                    for c, t in bad:
                        rep.bad("VALIST", "%s: `%s`" % (f.name, c.text[:50]), c.where,
                                "this call walks a va_list that an earlier call on some path has already walked, with no va_start or va_copy in between: "
                                "the arguments it formats are whatever lies beyond the real ones", function=f.name, construct="valist-reuse")
                    if not bad:
                        rep.ok("VALIST", "%s: every hand-over of a va_list is of a fresh one" % f.name, f.loc, "%d hand-overs" % nv)
            # ALLOCSIZE (no reference needed)
            if f.file == up or f.file in files:
                bad, na = alloc_sizes(f)
                if na:
                    n += 1
                    for c, asked, need in bad:
                        rep.bad("ALLOCSIZE", "%s: `%s`" % (f.name, c.text[:50]), c.where,
                                "%d bytes are asked for an object of %d bytes: every member stored afterwards is written outside the allocation" % (asked, need),
                                function=f.name, construct="alloc-size")
                    if not bad:
                        rep.ok("ALLOCSIZE", "%s: constant-size allocations cover the structs they are assigned to" % f.name, f.loc, "%d allocations" % na)
            # DRAIN (no reference needed)
            if f.file == up or f.file in files:
                bad, nd = drain_loops(f)
                if nd:
                    n += 1
                    for hb in bad:
                        rep.bad("DRAIN", "%s: `%s`" % (f.name, hb.cond.text[:50]), hb.cond.where,
                                "a path through the loop body returns to this test without having removed the element it took: the same element is "
                                "processed (and released) again", function=f.name, construct="drain")
                    if not bad:
                        rep.ok("DRAIN", "%s: every pass of a drain loop removes the element it looked at" % f.name, f.loc, "%d loops" % nd)
            # FAILPATH: a function that, on the reference tree, fails only when something it called failed still does
            if key in (ref_fp.get(f.file) or []):
                sp = spurious_failures(f)
                if sp is not None:
                    n += 1
                    rep.check(not sp, "FAILPATH", "%s fails only when something it called failed" % f.name, (sp[0].where if sp else f.loc),
                              "this failure return is reachable without any call having reported failure (on the reference tree every path to a failure return "
                              "passes the failure edge of a call): the operation is refused although nothing went wrong", function=f.name, construct="spurious-failure")
            # MASKWIDTH (no reference needed)
            if f.file == up or f.file in files:
                bad, nm_ = narrow_masks(f)
                if nm_:
                    n += 1
                    for e in bad:
                        rep.bad("MASKWIDTH", "%s: `%s`" % (f.name, e.text[:50]), e.where,
                                "the complement is computed in an unsigned type narrower than the value it masks and is widened with zero bits: "
                                "the mask clears the upper half of the value as well (lengths of 4 GiB and more are cut down)", function=f.name, construct="narrow-mask")
                    if not bad:
                        rep.ok("MASKWIDTH", "%s: no complement mask narrower than the value it is applied to" % f.name, f.loc, "%d masks" % nm_)
            # RESULT-TEST (no reference needed)
            if f.file == up or f.file in files:
                bad, nt = result_tests(prog, f)
                if nt:
                    n += 1
                    for ce, call, c, ks in bad:
                        rep.bad("RESULT-TEST", "%s: `%s`" % (f.name, ce.text[:50]), ce.where,
                                "%s() returns only %s; comparing its result with %d is never true: the failure it reports goes unnoticed" % (call.callee, ks, c),
                                function=f.name, construct="result-test:" + call.callee)
                    if not bad:
                        rep.ok("RESULT-TEST", "%s: results of the program's own status functions are compared with values they return" % f.name, f.loc, "%d comparisons" % nt)
            # RETVAL
            want = (ref_ret.get(f.file) or {}).get(key)
            if want is not None:
                got = ret_classes(f)
                # compared as sets: which return statement carries which constant changes with every restructuring (a clean-up
                # ladder turned into early returns), what the function can answer does not
                gs, ws = set(x for x in got if x in ("0", "+", "-")), set(x for x in want if x in ("0", "+", "-"))
                if gs or ws:
                    n += 1
                    name = {"0": "zero", "+": "a positive constant", "-": "a negative constant"}
                    extra, missing = sorted(gs - ws), sorted(ws - gs)
                    if extra or (missing and not any(x == "v" for x in got)):
                        rs = sorted(f.returns(), key=lambda e: (e.line, e.i))
                        at = next((r for r, c in zip(rs, got) if c in extra), rs[0] if rs else None)
                        rep.bad("RETVAL", "%s: the constants returned keep their sign class" % f.name, (at.where if at is not None else f.loc),
                                "the function now answers %s, which it never does on the reference tree (there: %s)%s: callers that test the result (== 0, != 0, < 0, NULL) read it differently"
                                % (", ".join(name[x] for x in extra) or "nothing new", ", ".join(name[x] for x in sorted(ws)) or "no constant",
                                   ("; it no longer answers " + ", ".join(name[x] for x in missing)) if missing else ""),
                                function=f.name, construct="retval")
                    else:
                        rep.ok("RETVAL", "%s: the constants returned keep their sign class" % f.name, f.loc, " ".join(sorted(gs)))
            # PARAM
            want = (ref_pm.get(f.file) or {}).get(key)
            if want is not None and [p["name"] for p in f.params] == want["all"]:
                n += 1
                gone = [x for x in want["used"] if x not in used_params(f)]
                rep.check(not gone, "PARAM", "%s still uses every parameter it uses on the reference tree" % f.name, f.loc,
                          "no longer mentioned in the body: %s (what the caller passed there -- a callback, a cookie, a length -- is dropped on the floor, and whatever it was "
                          "meant to set keeps its old value)" % ", ".join(gone), function=f.name, construct="param-unused:" + ",".join(gone))
            # CTOR
            want = (ref_ct.get(f.file) or {}).get(key)
            if want is not None and "record" in want:
                ci = ctor_info(f)
                fi = prog_i.units[up].func(f.name) if (prog_i is not None and up in prog_i.units) else None
                if fi is not None and ci is not None and ci[1] == want["record"] and [m for m in want["stored"] if m not in ci[2] and m in ci[3]]:
                    cii = ctor_info(fi)
                    if cii is not None and cii[1] == want["record"]:
                        ci = cii
                if ci is not None and ci[1] == want["record"]:
                    n += 1
                    missing = [m for m in want["stored"] if m not in ci[2] and m in ci[3]]
                    rep.check(not missing, "CTOR", "%s stores every member of the %s it returns that the reference constructor stores" % (f.name, want["record"]), f.loc,
                              "not stored on every path to the success return: %s (the object comes from malloc: what is there is whatever the allocator left)" % ", ".join(missing),
                              function=f.name, construct="ctor-init:" + ",".join(missing))
            # CTOR, for objects handed on by a store instead of a return
            want = ((ref_ct.get(f.file) or {}).get(key) or {}).get("escaped") if isinstance((ref_ct.get(f.file) or {}).get(key), dict) else None
            if want:
                got = escaped_objects(f)
                for recname, members in want.items():
                    if recname not in got:
                        continue
                    n += 1
                    missing = [m for m in members if m not in got[recname]]
                    expl = [m[1:] for m in missing if m.startswith("=")]
                    undef = [m for m in missing if not m.startswith("=")]
                    rep.check(not missing, "CTOR", "%s stores every member of the %s it hands on that the reference tree stores" % (f.name, recname), f.loc,
                              ((("not stored on every path on which the object is handed on: %s (what is there is whatever the allocator left); " % ", ".join(undef)) if undef else "") +
                               (("no longer assigned (left at the zero the allocation was filled with): %s" % ", ".join(expl)) if expl else "")),
                              function=f.name, construct="ctor-init:" + ",".join(missing))
            # DTOR
            want = (ref_dt.get(f.file) or {}).get(key)
            if want is not None:
                di = dtor_info(f, rel)
                if di is not None:
                    n += 1
                    missing = [m for m in want if m not in di[1]]
                    rep.check(not missing, "DTOR", "%s releases what the reference destructor releases" % f.name, f.loc,
                              "no longer released for a non-NULL argument: %s" % ", ".join("the object itself" if m == "self" else m for m in missing),
                              function=f.name, construct="dtor:" + ",".join(missing))
    rep.stats["reference_rule_instances"] = n
