"""Inlining of NEW static helper functions, on the extractor's facts (before the IR is built).

A rule written against the statements of a function of the pinned tree keeps its meaning when a maintainer moves some of
those statements into a new static helper ("extract function", "merge duplicated code").  The pinned tree's function names
per file are the reference (sa/funcnames.json, tools/gen_refs.py): a static, non-variadic, non-recursive function of a
known file whose name is NOT in the reference, and whose address is never taken, is a new helper, and every direct call of it
from the same unit is replaced by a copy of its control-flow graph:

  * the calling block is split at the call; the first half jumps to the copy's entry, the copy's returns jump to the second
    half, which starts with a placeholder standing for the call's value;
  * a parameter that the helper only reads is substituted: every read of it refers to the caller's argument expression (so
    a rule sees `memset(pad, 54, 64)` where the helper says `memset(pad, fill, 64)`); a parameter that is written or whose
    address is taken becomes a fresh local assigned from the argument;
  * locals, blocks and element references of the copy are renumbered; `return v` becomes an assignment to the placeholder's
    variable.

The helper itself stays in the unit (the generic rules still look at it).  Functions of the pinned tree are never inlined:
rules anchored in calls of them would lose their anchors.  The transformation is purely structural; nothing is evaluated.
"""
import copy, json, os

HERE = os.path.dirname(os.path.abspath(__file__))
_ref = None


def reference():
    global _ref
    if _ref is None:
        try:
            with open(os.path.join(HERE, "funcnames.json")) as f:
                _ref = {k: set(v) for k, v in json.load(f).items()}
        except (OSError, ValueError):
            _ref = {}
    return _ref


def _rel(path, repo):
    if path and repo and path.startswith(repo.rstrip("/") + "/"):
        return path[len(repo.rstrip("/")) + 1:]
    return path


def _line(e):
    loc = e.get("loc") or ""
    parts = loc.rsplit(":", 2)
    try:
        return int(parts[-2]) if len(parts) == 3 else 0
    except ValueError:
        return 0


def _all_elems(fn):
    for b in fn["blocks"]:
        for i, e in enumerate(b["elems"]):
            yield b, i, e


def _callee_of(fn, e):
    """name, decl id of the function a CallExpr element calls directly (through the usual decay cast), or (None, None)"""
    if e.get("cls") != "CallExpr" or not e.get("kids"):
        return None, None
    d = e.get("decl")
    if d and d.get("kind") == "func":
        return d.get("name"), d.get("id")
    return None, None


def helpers(facts, repo):
    """{name: function dict} of the new static helpers of this unit"""
    ref = reference()
    if not ref:
        return {}
    out = {}
    for fn in facts.get("functions", []):
        file = _rel(fn.get("file", ""), repo)
        if file not in ref or fn["name"] in ref[file]:
            continue
        if not fn.get("static") or fn.get("variadic") or not fn.get("blocks") or fn.get("macro"):
            continue
        out[fn["name"]] = fn
    if not out:
        return out
    # address taken anywhere (a DeclRefExpr of the function that is not the callee of a call): not a helper
    for fn in facts.get("functions", []):
        callee_refs = set()
        for b, i, e in _all_elems(fn):
            if e.get("cls") == "CallExpr" and e.get("kids"):
                # the callee operand: kids[0] -> (cast) -> DeclRefExpr
                r = e["kids"][0]
                seen = 0
                while r is not None and seen < 4:
                    callee_refs.add(tuple(r))
                    x = _get(fn, r)
                    r = x["kids"][0] if x is not None and x.get("cls") in ("ImplicitCastExpr", "ParenExpr") and x.get("kids") else None
                    seen += 1
        for b, i, e in _all_elems(fn):
            if e.get("cls") == "DeclRefExpr" and (e.get("decl") or {}).get("kind") == "func" and (e["decl"].get("name") in out):
                if (b["id"], i) not in callee_refs:
                    out.pop(e["decl"]["name"], None)
    # recursion (direct or through other helpers)
    def calls(fn):
        return set(n for _, _, e in _all_elems(fn) for n in [_callee_of(fn, e)[0]] if n in out)
    changed = True
    while changed:
        changed = False
        for n, fn in list(out.items()):
            seen, work = set(), [n]
            rec = False
            while work:
                x = work.pop()
                for y in calls(out[x]) if x in out else ():
                    if y == n:
                        rec = True
                    if y not in seen:
                        seen.add(y)
                        work.append(y)
            if rec:
                out.pop(n)
                changed = True
    return out


def _get(fn, ref):
    for b in fn["blocks"]:
        if b["id"] == ref[0]:
            return b["elems"][ref[1]] if 0 <= ref[1] < len(b["elems"]) else None
    return None


def _remap_refs(obj, f):
    """apply f to every [block, idx] reference inside an element / term / decl structure"""
    if isinstance(obj, dict):
        for k, v in list(obj.items()):
            if k in ("kids",) and isinstance(v, list):
                obj[k] = [f(r) if r is not None else None for r in v]
            elif k in ("cond", "init") and isinstance(v, list) and len(v) == 2 and all(isinstance(x, int) for x in v):
                obj[k] = f(v)
            else:
                _remap_refs(v, f)
    elif isinstance(obj, list):
        for x in obj:
            _remap_refs(x, f)


PURE_CLS = {"IntegerLiteral", "CharacterLiteral", "FloatingLiteral", "StringLiteral", "DeclRefExpr", "ImplicitCastExpr", "CStyleCastExpr", "ParenExpr", "MemberExpr",
            "ArraySubscriptExpr", "UnaryExprOrTypeTraitExpr", "ConstantExpr"}


def _expression_helper(h):
    """The helper is `return <side-effect-free expression>;` and nothing else: (body block, index of the value element)."""
    hexit = h.get("exit")
    body = [b for b in h["blocks"] if b["id"] != hexit and b["elems"]]
    if len(body) != 1 or any(len(b.get("succs") or []) > 1 for b in h["blocks"]):
        return None
    els = body[0]["elems"]
    if not els or els[-1].get("cls") != "ReturnStmt" or not els[-1].get("kids") or els[-1]["kids"][0] is None:
        return None
    for e in els[:-1]:
        c = e.get("cls")
        if c in PURE_CLS:
            continue
        if c == "BinaryOperator" and e.get("op") not in ("=", ",") and not str(e.get("op", "")).endswith("=") or (c == "BinaryOperator" and e.get("op") in ("==", "!=", "<=", ">=")):
            continue
        if c == "UnaryOperator" and e.get("op") in ("-", "~", "!", "+", "*", "&"):
            continue
        return None
    if any(r is not None and r[0] != body[0]["id"] for e in els for r in (e.get("kids") or [])):
        return None
    return body[0], els[-1]["kids"][0][1]


def _inline_expression(fn, B, blk, idx, h, body, vidx, args, pids):
    """Splice the helper's expression into the caller's block in place of the call (no new blocks)."""
    els = copy.deepcopy(body["elems"][:-1])
    n = len(els)
    call = B["elems"][idx]
    cast_of = {}
    for i, e in enumerate(body["elems"][:-1]):
        if e.get("cls") == "ImplicitCastExpr" and e.get("op") == "LValueToRValue" and e.get("kids") and e["kids"][0] is not None:
            k = body["elems"][e["kids"][0][1]]
            if k.get("cls") == "DeclRefExpr" and (k.get("decl") or {}).get("kind") == "param" and k["decl"].get("id") in pids:
                cast_of[i] = k["decl"]["id"]
    # a parameter used other than by reading it: not an expression helper after all
    for i, e in enumerate(body["elems"][:-1]):
        if e.get("cls") == "DeclRefExpr" and (e.get("decl") or {}).get("kind") == "param":
            users = [x for x in body["elems"] if any(r is not None and r[1] == i for r in (x.get("kids") or []))]
            if not (len(users) == 1 and users[0].get("cls") == "ImplicitCastExpr" and users[0].get("op") == "LValueToRValue"):
                return False

    def caller_map(r):
        if r[0] == blk and r[1] >= idx:
            return [blk, r[1] + n]
        return r
    for b in fn["blocks"]:
        _remap_refs(b["elems"], caller_map)
        if b.get("term"):
            _remap_refs(b["term"], caller_map)
    args = [caller_map(list(a)) for a in args]

    def callee_ref(r):
        if r[1] in cast_of:
            return list(args[pids[cast_of[r[1]]]])
        return [blk, idx + r[1]]
    _remap_refs(els, callee_ref)
    cline = call.get("iline") or _line(call)
    for e in els:
        e["inlined"] = h["name"]
        e["siteloc"] = call.get("siteloc") or call.get("loc", "")
        e["iline"] = cline
    value = callee_ref([body["id"], vidx])
    wrapper = {"cls": "ImplicitCastExpr", "op": "NoOp", "kids": [value], "ty": call.get("ty"), "loc": call.get("loc", ""), "text": call.get("text", ""), "inlined": h["name"]}
    if call.get("iline"):
        wrapper["iline"] = call["iline"]
    B["elems"] = B["elems"][:idx] + els + [wrapper] + B["elems"][idx + 1:]
    return True


def _inline_one(fn, blk, idx, h, serial, repo):
    """Replace the call fn.blocks[blk].elems[idx] of helper h by a copy of h.  Returns True when done."""
    B = next(b for b in fn["blocks"] if b["id"] == blk)
    call = B["elems"][idx]
    args = call["kids"][1:]
    if len(args) != len(h.get("params", [])) or any(a is None for a in args):
        return False
    xh = _expression_helper(h)
    if xh is not None:
        if _inline_expression(fn, B, blk, idx, h, xh[0], xh[1], args, {p["id"]: k for k, p in enumerate(h["params"])}):
            return True
    maxid = max(b["id"] for b in fn["blocks"])
    b2id = maxid + 1
    base = maxid + 2
    hid = {b["id"]: base + k for k, b in enumerate(h["blocks"])}
    vbase = 100000000 + serial * 100000
    # which parameters can be substituted: every use is DeclRefExpr -> ImplicitCastExpr(LValueToRValue)
    pids = {p["id"]: k for k, p in enumerate(h["params"])}
    read_only = {pid: True for pid in pids}
    cast_of = {}       # (block, idx) of the rvalue cast of a parameter read -> parameter id
    for b in h["blocks"]:
        users = {}
        for i, e in enumerate(b["elems"]):
            for r in e.get("kids") or []:
                if r is not None:
                    users.setdefault(tuple(r), []).append((b["id"], i, e))
    users = {}
    for b, i, e in _all_elems(h):
        for r in e.get("kids") or []:
            if r is not None:
                users.setdefault(tuple(r), []).append(e)
        for d in e.get("decls") or []:
            if isinstance(d, dict) and d.get("init"):
                users.setdefault(tuple(d["init"]), []).append(e)
    for b in h["blocks"]:
        t = b.get("term") or {}
        if t.get("cond") is not None:
            users.setdefault(tuple(t["cond"]), []).append(t)
    for b, i, e in _all_elems(h):
        if e.get("cls") == "DeclRefExpr" and (e.get("decl") or {}).get("id") in pids and (e["decl"].get("kind") == "param"):
            us = users.get((b["id"], i), [])
            if len(us) == 1 and us[0].get("cls") == "ImplicitCastExpr" and us[0].get("op") in ("LValueToRValue",):
                # find the cast's own position
                pass
            else:
                read_only[e["decl"]["id"]] = False
    for b, i, e in _all_elems(h):
        if e.get("cls") == "ImplicitCastExpr" and e.get("op") == "LValueToRValue" and e.get("kids") and e["kids"][0] is not None:
            k = _get(h, e["kids"][0])
            if k is not None and k.get("cls") == "DeclRefExpr" and (k.get("decl") or {}).get("kind") == "param" and k["decl"].get("id") in pids and read_only[k["decl"]["id"]]:
                cast_of[(b["id"], i)] = k["decl"]["id"]
    # ---- split the calling block ------------------------------------------------------------------
    tail = B["elems"][idx + 1:]
    head = B["elems"][:idx]
    rid = vbase + 99999
    void = (h.get("ret") or "void") == "void"
    placeholder = {"cls": "DeclRefExpr", "decl": {"id": rid, "kind": "local", "name": "$ret_" + h["name"]}, "lv": True, "ty": call.get("ty", h.get("ret")),
                   "loc": call.get("loc", ""), "text": call.get("text", ""), "inlined": h["name"]}
    if void:
        placeholder = {"cls": "NullStmt", "loc": call.get("loc", ""), "text": call.get("text", ""), "ty": "void", "inlined": h["name"]}
    if call.get("iline"):
        placeholder["iline"] = call["iline"]
        placeholder["iscale"] = call.get("iscale")
    B2 = {"id": b2id, "elems": [placeholder] + tail, "succs": B["succs"], "usuccs": B.get("usuccs") or [None] * len(B["succs"])}
    for k in ("term", "noreturn"):
        if k in B:
            B2[k] = B.pop(k)

    def caller_map(r):
        if r[0] == blk:
            if r[1] == idx:
                return [b2id, 0]
            if r[1] > idx:
                return [b2id, r[1] - idx]
        return r
    # parameters that are written: fresh locals bound at the end of the first half
    bind = []
    newid = {}
    for p in h["params"]:
        if not read_only[p["id"]]:
            nid = vbase + 90000 + pids[p["id"]]
            newid[p["id"]] = nid
            a = args[pids[p["id"]]]
            at = _get(fn, a) or {}
            bind.append({"cls": "DeclRefExpr", "decl": {"id": nid, "kind": "local", "name": p["name"]}, "lv": True, "ty": p.get("ty", at.get("ty")), "loc": call.get("loc", ""), "text": p["name"]})
            bind.append({"cls": "BinaryOperator", "op": "=", "kids": [[blk, len(head) + len(bind) - 1], list(a)], "ty": p.get("ty", at.get("ty")), "loc": call.get("loc", ""),
                         "text": "%s = <argument>" % p["name"]})
    B["elems"] = head + bind
    B["succs"] = [hid[h["entry"]]]
    B["usuccs"] = [None]
    # every reference into the moved tail, anywhere in the caller
    for b in fn["blocks"]:
        if b is B:
            continue
        _remap_refs(b["elems"], caller_map)
        if b.get("term"):
            _remap_refs(b["term"], caller_map)
    _remap_refs(B["elems"][:len(head)], caller_map)
    _remap_refs(B2["elems"], caller_map)
    if B2.get("term"):
        _remap_refs(B2["term"], caller_map)
    # `X = helper(..)` where every non-constant return of the helper hands back one of its locals V: in the copy V IS X (the
    # object a constructor-like helper builds is the one the caller goes on to use, under the caller's name)
    unify = None
    asg_elem = None
    try:
        tgt = None
        def at(r):
            # references have been remapped already: the second half is block b2id (not yet in fn), the call is its element 0
            if r[0] == b2id:
                return B2["elems"][r[1]] if 0 <= r[1] < len(B2["elems"]) else None
            return _get(fn, r)
        for e in B2["elems"][1:]:
            if e.get("cls") == "BinaryOperator" and e.get("op") == "=" and len(e.get("kids") or []) == 2 and e["kids"][0] is not None and e["kids"][1] is not None:
                r = e["kids"][1]
                hops = 0
                while r is not None and not (r[0] == b2id and r[1] == 0) and hops < 4:
                    x = at(r)
                    r = x["kids"][0] if x is not None and x.get("cls") in ("ImplicitCastExpr", "CStyleCastExpr", "ParenExpr") and x.get("kids") else None
                    hops += 1
                if r is not None and r[0] == b2id and r[1] == 0:
                    lx = at(e["kids"][0])
                    if lx is not None and lx.get("cls") == "DeclRefExpr" and (lx.get("decl") or {}).get("kind") == "local":
                        tgt = lx["decl"]
                        asg_elem = e
                break
        if tgt is not None and not void:
            rvars = set()
            okr = True
            for hb in h["blocks"]:
                for e in hb["elems"]:
                    if e.get("cls") == "ReturnStmt" and e.get("kids") and e["kids"][0] is not None:
                        x = hb["elems"][e["kids"][0][1]] if e["kids"][0][0] == hb["id"] else None
                        hops = 0
                        while x is not None and x.get("val") is None and x.get("cls") in ("ImplicitCastExpr", "CStyleCastExpr", "ParenExpr") and x.get("kids") and x["kids"][0] is not None and hops < 6:
                            k0 = x["kids"][0]
                            x = hb["elems"][k0[1]] if k0[0] == hb["id"] else None
                            hops += 1
                        if x is None:
                            okr = False
                        elif x.get("cls") == "DeclRefExpr" and (x.get("decl") or {}).get("kind") == "local":
                            rvars.add(x["decl"]["id"])
                        elif x.get("val") is None:
                            okr = False
            argvars = set()
            for a in args:
                stack = [a]
                seen_a = 0
                while stack and seen_a < 200:
                    r = stack.pop()
                    seen_a += 1
                    x = _get(fn, r)
                    if x is None:
                        continue
                    if x.get("cls") == "DeclRefExpr" and x.get("decl"):
                        argvars.add(x["decl"].get("id"))
                    stack.extend(k for k in (x.get("kids") or []) if k is not None)
            if okr and len(rvars) == 1 and tgt.get("id") not in argvars:
                unify = (list(rvars)[0], dict(tgt))
                # the caller's `X = <call>` has nothing left to do: on the helper's success path X already is the object, on
                # its failure paths the copy stores the constant into X itself (below).  What remains of the statement (the
                # comparison with NULL around it) reads X.
                if asg_elem is not None:
                    lhs = asg_elem["kids"][0]
                    for k_ in list(asg_elem.keys()):
                        if k_ not in ("loc", "text", "ty", "iline", "iscale"):
                            asg_elem.pop(k_)
                    asg_elem.update({"cls": "ImplicitCastExpr", "op": "LValueToRValue", "kids": [lhs], "inlined": h["name"]})
    except Exception:
        unify = None
    # ---- the copy ---------------------------------------------------------------------------------
    cline = call.get("iline") or _line(call)
    scale = (call.get("iscale") or 1.0) * 1e-4
    hfirst = min([_line(e) for _, _, e in _all_elems(h) if _line(e)] or [0])
    hexit = h.get("exit")
    newblocks = []
    const_returns = []
    expr_returns = []          # (copied block, index of the `$ret = value` element in it) for every return with a value

    def callee_ref(r):
        t = tuple(r)
        if t in cast_of:
            return list(args[pids[cast_of[t]]])
        return [hid[r[0]], r[1]]
    for hb in h["blocks"]:
        if hb["id"] == hexit:
            continue
        nb = copy.deepcopy(hb)
        nb["id"] = hid[hb["id"]]
        nb["succs"] = [(b2id if s == hexit else hid[s]) if s is not None else None for s in hb["succs"]]
        nb.pop("labels", None) if False else None
        elems = nb["elems"]
        # returns
        out = []
        extra = []
        for i, e in enumerate(elems):
            if e.get("cls") == "ReturnStmt" and unify is not None and asg_elem is not None and e.get("kids") and e["kids"][0] is not None:
                # unified: `return V` has nothing to do (V is X); `return <constant>` stores the constant into X
                x = hb["elems"][e["kids"][0][1]] if e["kids"][0][0] == hb["id"] and 0 <= e["kids"][0][1] < len(hb["elems"]) else None
                hops = 0
                while x is not None and x.get("val") is None and x.get("cls") in ("ImplicitCastExpr", "CStyleCastExpr", "ParenExpr") and x.get("kids") and x["kids"][0] is not None and hops < 6:
                    k0 = x["kids"][0]
                    x = hb["elems"][k0[1]] if k0[0] == hb["id"] else None
                    hops += 1
                if x is not None and x.get("cls") == "DeclRefExpr" and (x.get("decl") or {}).get("id") == unify[0]:
                    elems[i] = {"cls": "NullStmt", "loc": e.get("loc", ""), "text": e.get("text", "return"), "ty": "void"}
                else:
                    elems[i] = {"cls": "DeclRefExpr", "decl": dict(unify[1]), "lv": True, "ty": h.get("ret"), "loc": e.get("loc", ""), "text": unify[1].get("name", "")}
                    extra.append({"cls": "BinaryOperator", "op": "=", "kids": [[hb["id"], i], e["kids"][0]], "ty": h.get("ret"), "loc": e.get("loc", ""), "text": "%s" % e.get("text", "return")})
                    if x is not None and x.get("val") is not None:
                        try:
                            const_returns.append((nb, int(x["val"])))
                        except (TypeError, ValueError):
                            pass
            elif e.get("cls") == "ReturnStmt":
                if not void and e.get("kids") and e["kids"][0] is not None:
                    # placeholder variable = value; appended after the (last) return statement's position
                    e2 = {"cls": "DeclRefExpr", "decl": {"id": rid, "kind": "local", "name": "$ret_" + h["name"]}, "lv": True, "ty": h.get("ret"), "loc": e.get("loc", ""), "text": "$ret"}
                    elems[i] = e2
                    extra.append({"cls": "BinaryOperator", "op": "=", "kids": [[hb["id"], i], e["kids"][0]], "ty": h.get("ret"), "loc": e.get("loc", ""),
                                  "text": "%s" % e.get("text", "return")})
                    expr_returns.append((nb, len(elems) + len(extra) - 1))
                    # a constant answer (return (-1), return (0), return (NULL)): remembered for the threading below
                    rv = hb["elems"][e["kids"][0][1]] if e["kids"][0][0] == hb["id"] and 0 <= e["kids"][0][1] < len(hb["elems"]) else None
                    seen_rv = 0
                    while rv is not None and rv.get("val") is None and rv.get("cls") in ("ImplicitCastExpr", "CStyleCastExpr", "ParenExpr") and rv.get("kids") and rv["kids"][0] is not None and seen_rv < 6:
                        k0 = rv["kids"][0]
                        rv = hb["elems"][k0[1]] if k0[0] == hb["id"] and 0 <= k0[1] < len(hb["elems"]) else None
                        seen_rv += 1
                    if rv is not None and rv.get("val") is not None and rv.get("cls") != "DeclRefExpr":
                        try:
                            const_returns.append((nb, int(rv["val"])))
                        except (TypeError, ValueError):
                            pass
                else:
                    elems[i] = {"cls": "NullStmt", "loc": e.get("loc", ""), "text": e.get("text", "return"), "ty": "void"}
        elems.extend(extra)
        if (nb.get("term") or {}).get("cls") == "ReturnStmt":
            nb.pop("term")
        # renumber variables and references
        for e in elems:
            d = e.get("decl")
            if d and d.get("kind") in ("local", "param", "staticlocal") and "id" in d:
                if d["id"] in newid:
                    e["decl"] = dict(d, id=newid[d["id"]], kind="local")
                elif e.get("text") == (unify[1].get("name", "") if unify is not None else None) and e.get("lv") and unify is not None and d == unify[1]:
                    pass            # the target itself, put there for a constant return
                elif d.get("kind") == "local" and unify is not None and d["id"] == unify[0]:
                    e["decl"] = dict(unify[1])
                elif d.get("kind") == "local" and d["id"] != rid:
                    e["decl"] = dict(d, id=vbase + d["id"] % 90000)
            for dd in e.get("decls") or []:
                if isinstance(dd, dict) and dd.get("kind") == "local" and "id" in dd:
                    if unify is not None and dd["id"] == unify[0]:
                        dd["id"] = unify[1]["id"]
                        dd["name"] = unify[1].get("name", dd.get("name"))
                    else:
                        dd["id"] = vbase + dd["id"] % 90000
            e["inlined"] = h["name"]
            e["siteloc"] = call.get("siteloc") or call.get("loc", "")
            e["iscale"] = scale
            # position for rules that order statements by source line: the call's line, then the helper's own order
            e["iline"] = cline + (max(0, _line(e) - hfirst) + 1) * scale
        _remap_refs(elems, callee_ref)
        if nb.get("term"):
            _remap_refs(nb["term"], callee_ref)
        newblocks.append(nb)
    fn["blocks"].append(B2)
    fn["blocks"].extend(newblocks)
    # a test in the copy that the arguments decide (a literal handed in for the parameter it looks at) has one way out
    index = {b["id"]: b for b in fn["blocks"]}

    env = {}

    def value(ref, depth=0):
        b = index.get(ref[0])
        e = b["elems"][ref[1]] if b is not None and 0 <= ref[1] < len(b["elems"]) else None
        if e is None or depth > 12:
            return None
        if e.get("cls") == "DeclRefExpr" and (e.get("decl") or {}).get("id") in env:
            return env[e["decl"]["id"]]
        if e.get("cls") == "ImplicitCastExpr" and e.get("op") == "LValueToRValue" and env and e.get("kids") and e["kids"][0] is not None:
            k = index.get(e["kids"][0][0])
            ke = k["elems"][e["kids"][0][1]] if k is not None and 0 <= e["kids"][0][1] < len(k["elems"]) else None
            if ke is not None and ke.get("cls") == "DeclRefExpr" and (ke.get("decl") or {}).get("id") in env:
                return env[ke["decl"]["id"]]
        if e.get("val") is not None and e.get("cls") != "DeclRefExpr":
            try:
                return int(e["val"])
            except (TypeError, ValueError):
                return None
        c = e.get("cls")
        ks = e.get("kids") or []
        if c in ("ImplicitCastExpr", "CStyleCastExpr", "ParenExpr", "ConstantExpr") and ks and ks[0] is not None and e.get("op") != "LValueToRValue":
            return value(ks[0], depth + 1)
        if c == "UnaryOperator" and e.get("op") == "!" and ks and ks[0] is not None:
            v = value(ks[0], depth + 1)
            return None if v is None else int(not v)
        if c == "BinaryOperator" and e.get("op") in ("==", "!=", "<", "<=", ">", ">=") and len(ks) == 2 and ks[0] is not None and ks[1] is not None:
            a, b2 = value(ks[0], depth + 1), value(ks[1], depth + 1)
            if a is None or b2 is None:
                return None
            return int({"==": a == b2, "!=": a != b2, "<": a < b2, "<=": a <= b2, ">": a > b2, ">=": a >= b2}[e["op"]])
        return None
    # a return of a constant that the caller tests at once (`if (helper(..))`, `if (helper(..) != 0)`): the copy's return jumps
    # straight to the side of the test its constant decides -- the second half of the calling block holds nothing but that
    # test, so nothing is skipped -- and a failure inside the helper no longer "reaches" the caller's success path
    pure2 = all((e.get("cls") in PURE_CLS or (e.get("cls") == "BinaryOperator" and e.get("op") in ("==", "!=", "<", "<=", ">", ">=")) or
                 (e.get("cls") == "UnaryOperator" and e.get("op") in ("!", "-"))) for e in B2["elems"][1:])
    if not void and pure2 and len(B2.get("succs") or []) == 2 and (B2.get("term") or {}).get("cls") != "SwitchStmt":
        cref2 = (B2.get("term") or {}).get("cond")
        if cref2 is None and B2["elems"]:
            cref2 = [b2id, len(B2["elems"]) - 1]
        if cref2 is not None and cref2[0] == b2id:
            for nb, cv in const_returns:
                saved = B2["elems"][0]
                B2["elems"][0] = {"cls": "IntegerLiteral", "val": cv, "ty": saved.get("ty")}
                if unify is not None and asg_elem is not None:
                    env[unify[1]["id"]] = cv
                v = value(cref2)
                env.clear()
                B2["elems"][0] = saved
                if v is not None and B2["succs"][0 if v else 1] is not None:
                    nb["succs"] = [(B2["succs"][0 if v else 1] if sx == b2id else sx) for sx in nb["succs"]]
            # a return of an expression, when the caller's test is nothing but the truth of the result (`if (helper(..))`,
            # `if (!helper(..))`, `!= 0`, `== 0`): the copy branches on the returned expression itself
            saved = B2["elems"][0]
            B2["elems"][0] = {"cls": "IntegerLiteral", "val": 1, "ty": saved.get("ty")}
            v1 = value(cref2)
            B2["elems"][0] = {"cls": "IntegerLiteral", "val": 0, "ty": saved.get("ty")}
            v0 = value(cref2)
            B2["elems"][0] = saved
            if v1 is not None and v0 is not None and v1 != v0 and all(x is not None for x in B2["succs"]):
                tsucc, fsucc = (B2["succs"][0], B2["succs"][1]) if v1 else (B2["succs"][1], B2["succs"][0])
                consts = set(id(nb) for nb, _ in const_returns)
                for nb, k in expr_returns:
                    if id(nb) in consts or nb.get("succs") != [b2id] or nb.get("term"):
                        continue
                    asg = nb["elems"][k] if 0 <= k < len(nb["elems"]) else None
                    if asg is None or asg.get("cls") != "BinaryOperator" or asg.get("op") != "=" or len(asg.get("kids") or []) != 2:
                        continue
                    vref = asg["kids"][1]
                    ve = _get(fn, vref) if vref is not None else None
                    # only a comparison or a logical expression is a truth value already (0 or 1)
                    if ve is None or not (ve.get("cls") == "BinaryOperator" and ve.get("op") in ("==", "!=", "<", "<=", ">", ">=", "&&", "||") or (ve.get("cls") == "UnaryOperator" and ve.get("op") == "!")):
                        continue
                    nb["succs"] = [tsucc, fsucc]
                    nb["usuccs"] = [None, None]
                    nb["term"] = {"cls": "IfStmt", "cond": list(vref), "loc": asg.get("loc", "")}
            if not any(sx == b2id for b in fn["blocks"] for sx in (b.get("succs") or [])):
                # every return has been threaded past the test: the test itself is not on any path any more
                B2["succs"] = [None for _ in B2["succs"]]
    for nb in newblocks:
        if len(nb.get("succs") or []) != 2 or (nb.get("term") or {}).get("cls") == "SwitchStmt":
            continue
        cref = (nb.get("term") or {}).get("cond")
        if cref is None and nb["elems"]:
            cref = [nb["id"], len(nb["elems"]) - 1]
        v = value(cref) if cref is not None else None
        if v is not None:
            nb["succs"] = [nb["succs"][0], None] if v else [None, nb["succs"][1]]
    return True


def apply(facts, repo):
    """Inline the unit's new static helpers into their callers (in place).  Returns the names inlined."""
    hs = helpers(facts, repo)
    if not hs:
        return []
    done = set()
    serial = 0
    # helpers first (so that a helper that calls another helper is complete when it is copied), then everything else
    order = [f for f in facts["functions"] if f["name"] in hs] + [f for f in facts["functions"] if f["name"] not in hs]
    for fn in order:
        for _ in range(4000):
            site = None
            for b, i, e in _all_elems(fn):
                n, _id = _callee_of(fn, e)
                if n in hs and hs[n] is not fn:
                    site = (b["id"], i, n)
                    break
            if site is None:
                break
            serial += 1
            if not _inline_one(fn, site[0], site[1], copy.deepcopy(hs[site[2]]), serial, repo):
                # cannot inline this call: mark it so that the search moves on
                _get(fn, [site[0], site[1]])["decl"] = dict(_get(fn, [site[0], site[1]])["decl"], name=site[2] + "$kept")
                continue
            done.add(site[2])
    # a helper counts as inlined only when no direct call of it is left anywhere in the unit
    left = set()
    for fn in facts["functions"]:
        if fn["name"] in done:
            continue
        for _, _, e in _all_elems(fn):
            n, _id = _callee_of(fn, e)
            if n in done:
                left.add(n)
    return sorted(done - left)
