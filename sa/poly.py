"""E3r -- a small relational numeric domain: conjunctions of linear inequalities over integer-valued terms.

State     frozenset of constraints  sum(c_i * x_i) + k <= 0  (integer coefficients, gcd-reduced, integer-tightened);
          None = unreachable.  Variables are norm() terms (locals, member paths, derefs) or synthetic tuples.
Decision  entailment by Fourier-Motzkin elimination over the rationals: S |= c  iff  S and not-c is infeasible.  Sound for
          integers (rational infeasibility implies integer infeasibility); incomplete answers are "not proved".
Transfer  x = e / x += e / x -= e / x++ / x-- with e linear: substitution when invertible, projection + equality otherwise;
          anything else assigned to x, and every call that can reach x through a pointer argument, forgets x.
          Same-unit callees listed for inlining are analysed in the caller's state (bounded depth).
Join      the constraints of either side that the other side entails (a sound over-approximation of the convex hull);
          at loop heads, after two visits, only constraints of the old state survive (widening).
Machine arithmetic: C's unsigned arithmetic is modular, the domain's is not.  An unsigned subtraction a - b is translated only
          where the state entails a >= b, a signed-to-unsigned conversion only where it entails >= 0, a narrowing conversion
          never; otherwise the expression is opaque (no constraint is generated).  Unsigned additions and multiplications by a
          constant are assumed not to wrap (sizes of objects in memory; the overflow guards themselves are C12's ARITH rule).
"""
from fractions import Fraction
from math import gcd
from .ir import norm, root_var, subterms, show, _pure
from .dataflow import Solver, cond_atoms, edge_kinds

MAXCONS = 600


# ---- linear forms -------------------------------------------------------------------------
class Lin:
    __slots__ = ("t", "k")

    def __init__(self, t=None, k=0):
        self.t = {v: Fraction(c) for v, c in (t or {}).items() if c != 0}
        self.k = Fraction(k)

    @staticmethod
    def var(v):
        return Lin({v: 1}, 0)

    @staticmethod
    def const(k):
        return Lin({}, k)

    def __add__(self, o):
        o = o if isinstance(o, Lin) else Lin.const(o)
        t = dict(self.t)
        for v, c in o.t.items():
            t[v] = t.get(v, 0) + c
        return Lin(t, self.k + o.k)

    def __neg__(self):
        return Lin({v: -c for v, c in self.t.items()}, -self.k)

    def __sub__(self, o):
        o = o if isinstance(o, Lin) else Lin.const(o)
        return self + (-o)

    def scale(self, f):
        return Lin({v: c * f for v, c in self.t.items()}, self.k * f)

    def vars(self):
        return set(self.t)

    def is_const(self):
        return not self.t

    def subst(self, v, by):
        """Replace variable v by the linear form `by`."""
        if v not in self.t:
            return self
        c = self.t[v]
        rest = Lin({a: b for a, b in self.t.items() if a != v}, self.k)
        return rest + by.scale(c)

    def __repr__(self):
        parts = ["%s*%s" % (c, show(v) if isinstance(v, tuple) else v) for v, c in sorted(self.t.items(), key=lambda x: str(x[0]))]
        return " + ".join(parts + [str(self.k)])


def le0(l):
    """Constraint `l <= 0` in canonical integer form, or True / False when it has no variables."""
    if not l.t:
        return l.k <= 0
    den = 1
    for c in list(l.t.values()) + [l.k]:
        den = den * c.denominator // gcd(den, c.denominator)
    coefs = {v: int(c * den) for v, c in l.t.items()}
    k = l.k * den
    g = 0
    for c in coefs.values():
        g = gcd(g, abs(c))
    # integer tightening: sum (c/g) x <= -k/g, the left side is an integer, so it is <= floor(-k/g)
    kk = -((-k) // g) if g else k          # ceil(k / g)
    kq = Fraction(k, g)
    kk = int(-((-kq.numerator) // kq.denominator))
    return (tuple(sorted(((v, c // g) for v, c in coefs.items()), key=lambda x: repr(x[0]))), kk)


def cons(op, a, b=None):
    """Constraints (list) for `a op b` over the integers; None in the list never appears; '!=' yields []."""
    b = b if b is not None else Lin.const(0)
    d = a - b
    if op == "<=":
        return [le0(d)]
    if op == "<":
        return [le0(d + 1)]
    if op == ">=":
        return [le0(-d)]
    if op == ">":
        return [le0(-d + 1)]
    if op == "==":
        return [le0(d), le0(-d)]
    return []


def _lin_of_con(c):
    return Lin({v: k for v, k in c[0]}, c[1])


def negate(c):
    """not (e <= 0)  ==  -e + 1 <= 0"""
    return le0(-_lin_of_con(c) + 1)


def _simplify(cs):
    """Drop trivially true constraints, keep the tightest constant per coefficient vector; False if trivially infeasible."""
    best = {}
    for c in cs:
        if c is True:
            continue
        if c is False:
            return False
        if c[0] not in best or c[1] > best[c[0]]:
            best[c[0]] = c[1]
    return [(k, v) for k, v in best.items()]


def feasible(cs):
    """Fourier-Motzkin over the rationals.  True when a rational solution may exist (or the budget ran out)."""
    cs = _simplify(cs)
    if cs is False:
        return False
    while True:
        vs = {}
        for c in cs:
            for v, k in c[0]:
                p, n = vs.get(v, (0, 0))
                vs[v] = (p + (k > 0), n + (k < 0))
        if not vs:
            return True
        v = min(vs, key=lambda x: (vs[x][0] * vs[x][1], repr(x)))
        pos, neg, rest = [], [], []
        for c in cs:
            k = dict(c[0]).get(v)
            if k is None:
                rest.append(c)
            elif k > 0:
                pos.append((c, k))
            else:
                neg.append((c, -k))
        new = list(rest)
        for (cp, kp) in pos:
            lp = _lin_of_con(cp)
            for (cn, kn) in neg:
                ln = _lin_of_con(cn)
                new.append(le0(lp.scale(kn) + ln.scale(kp)))
        cs = _simplify(new)
        if cs is False:
            return False
        if len(cs) > MAXCONS:
            return True


def _affine_value(eqs, l):
    """The constant d with l == d on the affine set {e == 0 for e in eqs}, or None when l is not constant there
    (Gaussian elimination over the rationals)."""
    rows = []
    for e in eqs:
        e = Lin(dict(e.t), e.k)
        for pv, r in rows:
            if pv in e.t:
                e = e - r.scale(e.t[pv])
        if e.t:
            pv = sorted(e.t, key=repr)[0]
            rows.append((pv, e.scale(1 / e.t[pv])))
    l = Lin(dict(l.t), l.k)
    # back-substitution is not needed: eliminate pivots in order, repeatedly, until none is left
    changed = True
    while changed:
        changed = False
        for pv, r in rows:
            if pv in l.t:
                l = l - r.scale(l.t[pv])
                changed = True
    return l.k if not l.t else None


def subst_all(cs, v, by):
    """Constraint list with variable v replaced by the linear form `by` (an invertible assignment v := f(v) is the
    substitution of f's inverse)."""
    out = []
    for c in cs:
        if not isinstance(c, tuple):
            out.append(c)
            continue
        if v in dict(c[0]):
            c = le0(_lin_of_con(c).subst(v, by))
            if c is True:
                continue
        out.append(c)
    return out


def _reduce(cs):
    """An equivalent, smaller constraint list: the equalities among cs are replaced by a reduced basis (Gauss-Jordan), their
    pivot variables are substituted out of the inequalities, duplicates and trivially true results are dropped.  (A join
    that discovers combinations of equalities would otherwise accumulate every combination it has ever found.)"""
    S = set(cs)
    eqs, ineqs, seen = [], [], set()
    for c in cs:
        m = (tuple((v, -k) for v, k in c[0]), -c[1])
        if m in S:
            if c not in seen and m not in seen:
                eqs.append(_lin_of_con(c))
            seen.add(c)
            seen.add(m)
        else:
            ineqs.append(c)
    if not eqs:
        return list(cs)
    rows = []
    for e in eqs:
        for pv, r in rows:
            if pv in e.t:
                e = e - r.scale(e.t[pv])
        if not e.t:
            if e.k != 0:
                return list(cs)          # contradictory: leave it to the feasibility test
            continue
        # prefer to eliminate a program variable and keep entry-value symbols in the basis
        pv = sorted(e.t, key=lambda v: (isinstance(v, tuple) and bool(v) and v[0] == "$entry", repr(v)))[0]
        e = e.scale(1 / e.t[pv])
        rows = [(q, r - e.scale(r.t[pv]) if pv in r.t else r) for q, r in rows]
        rows.append((pv, e))
    out = []
    for pv, r in rows:
        for c in (le0(r), le0(-r)):
            if c is False:
                return list(cs)
            if c is not True:
                out.append(c)
    for c in ineqs:
        l = _lin_of_con(c)
        for pv, r in rows:
            if pv in l.t:
                l = l - r.scale(l.t[pv])
        c2 = le0(l)
        if c2 is False:
            return list(cs)
        if c2 is not True:
            out.append(c2)
    r = _simplify(out)
    return r if r is not False else list(cs)


def project(cs, v):
    """Eliminate variable v (one Fourier-Motzkin step)."""
    pos, neg, rest = [], [], []
    for c in cs:
        k = dict(c[0]).get(v)
        if k is None:
            rest.append(c)
        elif k > 0:
            pos.append((c, k))
        else:
            neg.append((c, -k))
    new = list(rest)
    if len(pos) * len(neg) <= 200:
        for (cp, kp) in pos:
            lp = _lin_of_con(cp)
            for (cn, kn) in neg:
                new.append(le0(_lin_of_con(cn).scale(kp) + lp.scale(kn)))
    r = _simplify(new)
    return r if r is not False else [((), 1)]


# ---- the analysis -------------------------------------------------------------------------
INT_KINDS = ("int", "enum", "bool")
MAXDISJ = 12


def _is_disj(st):
    return any(isinstance(x, frozenset) for x in st)


class Analysis:
    """Relational analysis of one function.  A state is a bounded disjunction of constraint sets (one per group of paths:
    trace partitioning), so facts that hold on one side of a branch only are not lost at the join; disjuncts are merged
    (weak join) only beyond MAXDISJ or at loop heads.

    assume     [(op, Lin, Lin)] holding at entry
    quiet      names of callees that keep no reference they write through now: their pointer arguments' pointees survive
               (None in the set: calls through a function pointer too)
    inline     {name: Func} same-unit callees analysed in place (depth <= 2)
    post       {name: fn(analysis, call_elem, state_before, cons_list) -> cons_list} extra facts after a call (trusted contracts)
    """

    ren = None
    local_ids = frozenset()

    def __init__(self, func, assume=(), quiet=(), inline=None, post=None, depth=0, unsigned_terms=(), track=None):
        self.f = func
        self.u = func.unit
        self.quiet = set(quiet)
        self.inline = inline or {}
        self.post = post or {}
        self.ghost = None      # optional object with on_atom(analysis, cons_list, op, L, R, Lelem, Relem) -> cons_list
        self.depth = depth
        self.track = track                       # None, or a predicate on variable terms: untracked terms are opaque (slicing)
        self.unsigned = set(unsigned_terms)      # variables known to be of an unsigned type (>= 0 always)
        self.init = []
        for op, a, b in assume:
            self.init += cons(op, a, b)
        self.visits = {}
        self.vtype = {}           # variable term -> C type it was read or written with (type-based alias refinement)
        self.deadline = None
        self.defs = {}            # quotient variable -> its defining constraints (k*q <= a <= k*q + k - 1)
        self.heads = self._loop_heads()
        self.solver = None

    def nm(self, e):
        """norm() of an element in the caller's vocabulary (identity unless this analysis is an inlined callee)."""
        n = norm(e)
        return self._rn(n) if self.ren else n

    def _rn(self, t):
        if isinstance(t, tuple):
            if t in self.ren:
                return self.ren[t]
            return tuple(self._rn(k) for k in t)
        return t

    # -- types ---------------------------------------------------------------------------
    def _ty(self, name):
        return self.u.types.get(name) or {}

    def _is_unsigned(self, name):
        t = self._ty(name)
        return t.get("kind") in INT_KINDS and t.get("signed") is False

    def _is_int(self, name):
        return self._ty(name).get("kind") in INT_KINDS

    def _bounds(self, vs):
        """Facts that hold of the variables whatever the state: unsigned types are >= 0, a quotient variable lies in its bracket."""
        out = []
        seen = set()
        work = list(vs)
        while work:
            v = work.pop()
            if v in seen:
                continue
            seen.add(v)
            if v in self.unsigned:
                out.append(le0(-Lin.var(v)))
            if v in self.defs:
                for c in self.defs[v]:
                    out.append(c)
                    if isinstance(c, tuple):
                        work.extend(x for x, _ in c[0])
        return out

    def _loop_heads(self):
        f = self.f
        order = {b: i for i, b in enumerate(f.rpo())}
        heads = set()
        for b in f.blocks.values():
            for s in b.succs:
                if s is not None and b.id in order and s in order and order[s] <= order[b.id]:
                    heads.add(s)
        return heads

    # -- queries -------------------------------------------------------------------------
    def _entailsP(self, P, c_list):
        base = list(P)
        for c in c_list:
            if c is True:
                continue
            if c is False:
                if feasible(base + self._bounds(self._vars(base))):
                    return False
                continue
            q = base + [negate(c)]
            if feasible(q + self._bounds(self._vars(q))):
                return False
        return True

    def entails(self, st, c_list):
        """Every constraint of c_list holds in every integer point of st (a constraint set or a disjunction of them)."""
        if st is None:
            return True
        if _is_disj(st):
            return all(self._entailsP(P, c_list) for P in st)
        return self._entailsP(st, c_list)

    def holds(self, st, op, a, b=None):
        if a is None:
            return False
        if op == "!=":
            return self.entails(st, cons("<", a, b)) or self.entails(st, cons(">", a, b))
        return self.entails(st, cons(op, a, b))

    @staticmethod
    def _vars(cs):
        out = set()
        for c in cs:
            if isinstance(c, tuple):
                for v, _ in c[0]:
                    out.add(v)
        return out

    # -- expressions ---------------------------------------------------------------------
    def lin(self, e, st):
        """Linear form of the value of element e in state st, or None when it is not (provably, in all of st) linear."""
        if e is None:
            return None
        c = e.cls
        if c == "ParenExpr":
            return self.lin(e.kid(0), st)
        if e.val is not None and c != "DeclRefExpr":
            return Lin.const(e.val)
        if c == "DeclRefExpr" and e.decl and e.decl.get("kind") == "enumconst" and e.val is not None:
            return Lin.const(e.val)
        if c in ("ImplicitCastExpr", "CStyleCastExpr"):
            k = e.kid(0)
            inner = self.lin(k, st)
            if inner is None:
                return None
            src, dst = self._ty(k.ty), self._ty(e.ty)
            if src.get("kind") in INT_KINDS and dst.get("kind") in INT_KINDS:
                if inner.is_const():
                    return inner
                if dst.get("size", 8) < src.get("size", 8):
                    return None
                if dst.get("signed") is False and src.get("signed") is not False:
                    if not self.holds(st, ">=", inner, Lin.const(0)):
                        return None
            return inner
        if c in ("DeclRefExpr", "MemberExpr", "ArraySubscriptExpr") or (c == "UnaryOperator" and e.op == "*"):
            n = self.nm(e)
            if not _pure(n):
                return None
            if c == "DeclRefExpr" and e.decl.get("kind") == "func":
                return None
            if self.track is not None and not self.track(n):
                return None
            t = self._ty(e.ty)
            if t.get("kind") == "ptr" and (self._ty(t.get("pointee", "")).get("size") or 0) != 1 and not getattr(self, "any_ptr", False):
                # only byte pointers take part in arithmetic here; carrying equalities between other pointers costs much and proves nothing
                return None
            if t.get("kind") not in INT_KINDS and t.get("kind") != "ptr":
                return None
            if self._is_unsigned(e.ty):
                self.unsigned.add(n)
            self.vtype.setdefault(n, (t.get("canon") or e.ty))
            return Lin.var(n)
        if c == "UnaryOperator" and e.op == "&":
            k = e.kid(0).strip() if e.kid(0) is not None else None
            if k is not None and k.cls == "ArraySubscriptExpr":
                base, idx = self.lin(k.kid(0), st), self.lin(k.kid(1), st)
                sz = self._ty(k.ty).get("size")
                if base is not None and idx is not None and sz:
                    return base + idx.scale(sz)
            return None
        if c == "ConditionalOperator" and len(e.kids) == 3:
            # c ? a : b -- in a state that decides c (the two arms arrive as separate disjuncts) the value is that arm's; when
            # both arms have the same linear form the condition does not matter
            P = frozenset(x for x in st if isinstance(x, tuple)) if not _is_disj(st) else None
            if P is not None and _pure(self.nm(e.kid(0))):
                t_ok = bool(self._refine(P, e.kid(0), True))
                f_ok = bool(self._refine(P, e.kid(0), False))
                if t_ok and not f_ok:
                    return self.lin(e.kid(1), st)
                if f_ok and not t_ok:
                    return self.lin(e.kid(2), st)
            la, lb = self.lin(e.kid(1), st), self.lin(e.kid(2), st)
            if la is not None and lb is not None and la.t == lb.t and la.k == lb.k:
                return la
            return None
        if c == "UnaryOperator" and e.op == "-":
            inner = self.lin(e.kid(0), st)
            return -inner if inner is not None and not self._is_unsigned(e.ty) else None
        if c == "BinaryOperator" and e.op == "=":
            # the value of an assignment expression is the value its target has afterwards (the inner assignment is an
            # earlier element, so the state already reflects it)
            return self.lin(e.kid(0), st)
        if c == "BinaryOperator":
            a, b = self.lin(e.kid(0), st), self.lin(e.kid(1), st)
            if e.op == "+" and a is not None and b is not None:
                ta, tb = self._ty(e.kid(0).ty), self._ty(e.kid(1).ty)
                if ta.get("kind") == "ptr":
                    sz = self._ty(ta.get("pointee", "")).get("size")
                    return a + b.scale(sz) if sz else None
                if tb.get("kind") == "ptr":
                    sz = self._ty(tb.get("pointee", "")).get("size")
                    return b + a.scale(sz) if sz else None
                return a + b
            if e.op == "-" and a is not None and b is not None:
                ta, tb = self._ty(e.kid(0).ty), self._ty(e.kid(1).ty)
                if ta.get("kind") == "ptr" and tb.get("kind") == "ptr":
                    # difference of two byte pointers (a signed count)
                    if self._ty(ta.get("pointee", "")).get("size") == 1 and self._ty(tb.get("pointee", "")).get("size") == 1:
                        return a - b
                    return None
                if ta.get("kind") == "ptr":
                    sz = self._ty(ta.get("pointee", "")).get("size")
                    return a - b.scale(sz) if sz else None
                if self._is_unsigned(e.ty) and not self.holds(st, ">=", a, b):
                    return None
                return a - b
            if e.op == "*" and a is not None and b is not None:
                if a.is_const():
                    return b.scale(a.k)
                if b.is_const():
                    return a.scale(b.k)
                return None
            if e.op == "<<" and a is not None and b is not None and b.is_const() and 0 <= b.k < 62:
                return a.scale(2 ** int(b.k))
            if e.op == "&" and a is not None and b is not None and b.is_const() and b.k.denominator == 1 and self._is_unsigned(e.kid(0).ty):
                # x & ~(2^k - 1), the round-down-to-a-multiple idiom: 2^k * q with q the quotient of x by 2^k
                m = int(b.k) % (1 << 64)
                low = (1 << 64) - m
                if m and low & (low - 1) == 0 and low < (1 << 32) and (self._ty(e.ty).get("size") or 8) == 8:
                    n = ("&~", self.nm(e.kid(0)), ("c", low))
                    if _pure(n):
                        q = Lin.var(n)
                        self.unsigned.add(n)
                        self.defs[n] = cons("<=", q.scale(low), a) + cons("<=", a, q.scale(low) + (low - 1))
                        return q.scale(low)
            if e.op in ("/", ">>") and a is not None and b is not None and b.is_const() and b.k.denominator == 1:
                # floor division of a non-negative value by a positive constant: a quotient variable q with k*q <= a <= k*q + k - 1
                k = int(b.k) if e.op == "/" else (2 ** int(b.k) if 0 <= b.k < 62 else 0)
                if k >= 1 and (self._is_unsigned(e.kid(0).ty) or self.holds(st, ">=", a, Lin.const(0))):
                    n = self.nm(e)
                    if _pure(n):
                        q = Lin.var(n)
                        self.unsigned.add(n)
                        self.defs[n] = cons("<=", q.scale(k), a) + cons("<=", a, q.scale(k) + (k - 1))
                        return q
            return None
        if c == "CallExpr":
            if self.track is not None and not self.track(("$ret",)):
                return None
            return Lin.var(("$ret", self.f.name, e.pos))
        return None

    # -- forgetting ----------------------------------------------------------------------
    def bump(self, cs, v, k):
        """Constraint list after the ghost variable v has been increased by the constant k (v' = v + k, substituted everywhere)."""
        by = Lin.var(v) - Lin.const(k)
        out = _simplify([le0(_lin_of_con(c).subst(v, by)) for c in cs])
        return [] if out is False else list(out)

    def _kill(self, cs, pred):
        vs = [v for v in self._vars(cs) if pred(v)]
        for v in vs:
            cs = project(cs + self._bounds([v]), v)
        return cs

    def kill_term(self, cs, t, ty=None):
        """An lvalue was overwritten: forget it, everything computed through it, and what may alias it (a store through a
        pointer or into an array element may hit any other such object of the same type, or any object when the type is a
        character type)."""
        fld = t[2] if isinstance(t, tuple) and t and t[0] == "." else None
        indirect = isinstance(t, tuple) and t and t[0] in ("*", "[]")
        tcan = (self._ty(ty).get("canon") or ty) if ty else None
        chars = ("char", "unsigned char", "signed char")

        def pred(v):
            if not isinstance(v, tuple):
                return False
            if v == t:
                return True
            if any(s == t for s in subterms(v)):
                return True
            if fld is not None and v[0] == "." and v[2] == fld:
                return True
            if indirect and v and v[0] in ("*", "[]"):
                vt = self.vtype.get(v)
                if tcan is not None and vt is not None and vt != tcan and tcan not in chars and vt not in chars:
                    return False
                return True
            return False
        return self._kill(cs, pred)

    def kill_reachable(self, cs, base):
        """A callee got pointer `base` (a variable term, or the address of one): forget what it can reach."""
        def pred(v):
            return isinstance(v, tuple) and bool(v) and v[0] != "$ret" and v != base and any(s == base for s in subterms(v))
        return self._kill(cs, pred)

    # -- transfer (disjunction-wise) -----------------------------------------------------
    def _budget(self):
        import time
        if self.deadline is None:
            self.deadline = time.time() + 60
        elif time.time() > self.deadline:
            from . import cdb
            raise cdb.AnalysisBroken("the relational analysis of %s exceeded its time budget (60 s): nothing is claimed" % self.f.name)

    def transfer(self, st, e):
        if st is None:
            return None
        if e.cls == "DeclStmt" and e.decls and any(isinstance(d, dict) and d.get("init") for d in e.decls):
            out = set()
            for P in st:
                r = self._declinit(P, e)
                if r is not None:
                    out.add(r)
            return self._norm_disj(out)
        if not (e.cls == "CallExpr" or e.is_assign or e.is_incdec):
            return st
        self._budget()
        out = set()
        for P in st:
            r = self._call(P, e) if e.cls == "CallExpr" else self._assign(P, e)
            if r is None:
                continue
            if _is_disj(r):
                out |= set(r)
            else:
                out.add(r)
        return self._norm_disj(out)

    def _norm_disj(self, out, blk=None):
        out = set(out)
        if not out:
            return None
        if len(out) > 1:
            # drop disjuncts contained in another one
            lst = sorted(out, key=lambda P: (len(P), sorted(map(repr, P))))
            keep = []
            for P in lst:
                if any(Q is not P and all(self._entailsP(P, [c]) for c in Q) for Q in keep):
                    continue
                keep.append(P)
            out = set(keep)
        while len(out) > MAXDISJ:
            lst = sorted(out, key=lambda P: (len(P), sorted(map(repr, P))))
            a, b = lst[0], lst[1]
            out.discard(a)
            out.discard(b)
            out.add(self._joinP(a, b))
        return frozenset(out)

    def _declinit(self, st, e):
        """`T x = init;` is an assignment to a fresh variable."""
        cs = list(st)
        for d in e.decls:
            if not (isinstance(d, dict) and d.get("init")) or d.get("kind") not in ("local",):
                continue
            try:
                rhs = self.f.elem(d["init"])
            except (KeyError, IndexError, TypeError):
                continue
            v = ("v", d["name"], d["id"])
            if self.ren:
                v = self._rn(v)
            t = self._ty(d.get("ty", ""))
            # the variable is fresh: only facts about the variable itself are stale (facts a rule assumed about what it points
            # to are about its value after this initialisation)
            cs = self._kill(cs, lambda x, v=v: x == v)
            if t.get("kind") not in INT_KINDS and t.get("kind") != "ptr":
                continue
            if t.get("kind") == "ptr" and (self._ty(t.get("pointee", "")).get("size") or 0) != 1:
                continue
            if self.track is not None and not self.track(v):
                continue
            r = self.lin(rhs, frozenset(c for c in cs if isinstance(c, tuple)))
            if r is None or v in r.vars():
                continue
            src_sz = self._ty(rhs.ty).get("size", 0)
            if t.get("kind") in INT_KINDS and src_sz > t.get("size", 8) and not r.is_const():
                continue
            if t.get("kind") in INT_KINDS and t.get("signed") is False:
                self.unsigned.add(v)
            self.vtype.setdefault(v, t.get("canon") or d.get("ty"))
            cs = cs + cons("==", Lin.var(v), r)
        s2 = _simplify(cs)
        if s2 is False:
            return None
        return frozenset(s2)

    def _assign(self, st, e):
        cs = list(st)
        tgt = e.kid(0)
        t = self.nm(tgt)
        if not _pure(t):
            return frozenset(cs)
        tl = self.lin(tgt, st)
        if e.is_incdec or e.op in ("+=", "-="):
            if e.is_incdec:
                r = Lin.const(1)
                minus = e.op.endswith("--")
            else:
                r = self.lin(e.kid(1), st)
                minus = e.op == "-="
            isptr = self._ty(tgt.ty).get("kind") == "ptr"
            ok = tl is not None and r is not None and t not in r.vars() and (self._is_int(tgt.ty) or isptr)
            if ok and isptr:
                sz = self._ty(self._ty(tgt.ty).get("pointee", "")).get("size")
                r = r.scale(sz) if sz else None
                ok = r is not None
            if ok and minus and self._is_unsigned(tgt.ty) and not self.holds(st, ">=", tl, r):
                ok = False
            if ok:
                # new = old +- r  =>  old = new -+ r : substitute in every constraint
                by = Lin.var(t) + (r if minus else -r)
                out = _simplify([le0(_lin_of_con(c).subst(t, by)) for c in cs])
                if out is False:
                    return None
                # terms computed through t (e.g. *t) are stale
                out = self._kill(out, lambda v: isinstance(v, tuple) and v != t and any(s == t for s in subterms(v)))
                return frozenset(out)
            return frozenset(self.kill_term(cs, t, tgt.ty))
        if e.op == "/=" and tl is not None and self._is_unsigned(tgt.ty):
            r = self.lin(e.kid(1), st)
            if r is not None and r.is_const() and r.k.denominator == 1 and r.k >= 1:
                # x /= k: the old value becomes a temporary bracketed by the new one, k*x <= old <= k*x + k - 1
                k = int(r.k)
                old = ("$old", self.f.name, e.pos)
                out = [le0(_lin_of_con(c).subst(t, Lin.var(old))) for c in cs]
                out += self._bounds([t]) and [le0(-Lin.var(old))] or [le0(-Lin.var(old))]
                x = Lin.var(t)
                out += cons("<=", x.scale(k), Lin.var(old)) + cons("<=", Lin.var(old), x.scale(k) + (k - 1))
                out = _simplify(out)
                if out is False:
                    return None
                out = project(out, old)
                out = self._kill(out, lambda v: isinstance(v, tuple) and v != t and any(s == t for s in subterms(v)))
                self.unsigned.add(t)
                return frozenset(out)
            return frozenset(self.kill_term(cs, t))
        if e.op == "=":
            r = self.lin(e.kid(1), st)
            if r is not None and tl is not None and t in r.vars() and r.t[t] > 0 and self._is_int(tgt.ty) and \
                    not (e.kid(1) is not None and self._ty(e.kid(1).ty).get("size", 0) > self._ty(tgt.ty).get("size", 8)):
                # x = a*x + b with a > 0 (an invertible update of the variable by itself): old = (new - b) / a, substituted in every
                # constraint like x += r above
                a = r.t[t]
                rest = Lin({v: c for v, c in r.t.items() if v != t}, r.k)
                by = (Lin.var(t) - rest).scale(1 / a)
                out = _simplify([le0(_lin_of_con(c).subst(t, by)) for c in cs])
                if out is False:
                    return None
                out = self._kill(out, lambda v: isinstance(v, tuple) and v != t and any(s == t for s in subterms(v)))
                return frozenset(out)
            cs = self.kill_term(cs, t, tgt.ty)
            if r is not None and t not in r.vars() and (self._is_int(tgt.ty) or self._ty(tgt.ty).get("kind") == "ptr"):
                # a narrowing store does not preserve the value
                src = e.kid(1)
                if self._is_int(tgt.ty) and src is not None and self._ty(src.ty).get("size", 0) > self._ty(tgt.ty).get("size", 8) and not r.is_const():
                    return frozenset(cs)
                if self._is_unsigned(tgt.ty):
                    self.unsigned.add(t)
                cs = cs + cons("==", Lin.var(t), r)
                s2 = _simplify(cs)
                if s2 is False:
                    return None
                cs = s2
            return frozenset(cs)
        return frozenset(self.kill_term(cs, t))

    def _call(self, st, e):
        cs = list(st)
        rv = ("$ret", self.f.name, e.pos)
        cs = self._kill(cs, lambda v: v == rv)
        name = e.callee
        if name in self.inline and self.depth < 2:
            out = self._inline(frozenset(cs), e, self.inline[name])
            if out is not None:
                return out
        if name not in self.quiet:
            for a in e.args:
                if a is None:
                    continue
                n = self.nm(a)
                t = self._ty(a.ty)
                if n[0] == "&":
                    cs = self.kill_term(cs, n[1])
                    cs = self.kill_reachable(cs, n[1])
                elif t.get("kind") == "ptr" and n[0] == "v":
                    pt = self._ty(t.get("pointee", ""))
                    if pt.get("kind") in ("record", "void", "struct", "union") or pt.get("kind") is None:
                        cs = self.kill_reachable(cs, n)
                    else:
                        cs = self._kill(cs, lambda v: v == ("*", n) or (isinstance(v, tuple) and bool(v) and v[0] == "[]" and v[1] == n))
        if name in self.post:
            cs = self.post[name](self, e, st, cs)
            if cs and isinstance(cs[0], list):
                # a contract with alternative outcomes (success / failure): one disjunct each
                outs = set()
                for alt in cs:
                    s2 = _simplify(alt)
                    if s2 is not False:
                        outs.add(frozenset(s2))
                return self._norm_disj(outs)
        s2 = _simplify(cs)
        if s2 is False:
            return None
        return frozenset(s2)

    def _inline(self, st, call, callee):
        """Analyse `callee` in the caller's state: pointer parameters are renamed to the caller's argument terms, scalar
        parameters become fresh variables equal to the arguments.  Result: one disjunct per exit state, each with the
        value returned recorded in this call's $ret variable (so a test of the result right after the call separates
        what holds on the success return from what holds on the failure return)."""
        ren = {}
        eqs = []
        for p, a in zip(callee.params, call.args):
            pv = ("v", p["name"], p["id"])
            n = self.nm(a) if a is not None else None
            l = self.lin(a, st)
            pty = callee.unit.types.get(p["ty"]) or {}
            if pty.get("kind") == "ptr" and n is not None and _pure(n) and n[0] in ("v", ".", "&"):
                ren[pv] = n
            elif l is not None:
                eqs += cons("==", Lin.var(pv), l)
                if pty.get("kind") in INT_KINDS and pty.get("signed") is False:
                    self.unsigned.add(pv)
        sub = Analysis(callee, quiet=self.quiet, inline=self.inline, post=self.post, depth=self.depth + 1, unsigned_terms=self.unsigned)
        sub.ren = ren
        sub.init = list(st) + eqs
        sub.run()
        self.unsigned |= sub.unsigned
        rv = ("$ret", self.f.name, call.pos)
        outs = []
        for r in callee.returns():
            s = sub.solver.state_before(r)
            if s is None:
                continue
            for P in s:
                cs = list(P)
                if r.kids and r.kid(0) is not None:
                    l = sub.lin(r.kid(0), P)
                    if l is not None:
                        cs = cs + cons("==", Lin.var(rv), l)
                outs.append(cs)
        if not outs:
            s = sub.solver.IN.get(callee.exit)      # void function falling off its end
            if s is None:
                return None
            outs = [list(P) for P in s]

        def callee_local(v):
            if not isinstance(v, tuple):
                return False
            if v and v[0] == "$ret" and v[1] == callee.name:
                return True
            for t in subterms(v):
                if isinstance(t, tuple) and t and t[0] == "v" and len(t) > 2 and t[2] in sub.local_ids:
                    return True
            return False
        parts = set()
        for cs in outs:
            s2 = _simplify(self._kill(cs, callee_local))
            if s2 is not False:
                parts.add(frozenset(s2))
        return self._norm_disj(parts)

    def _collect_locals(self):
        ids = set(p["id"] for p in self.f.params)
        for e in self.f.all_elems():
            if e.cls == "DeclRefExpr" and e.decl and e.decl.get("kind") in ("local", "param"):
                ids.add(e.decl["id"])
            if e.cls == "DeclStmt" and e.decls:
                for d in e.decls:
                    if isinstance(d, dict) and "id" in d:
                        ids.add(d["id"])
        self.local_ids = frozenset(ids)

    # -- refinement ----------------------------------------------------------------------
    def refine(self, st, cond, kind):
        if st is None:
            return None
        out = set()
        for P in st:
            for r in self._refine(P, cond, kind):
                out.add(r)
        return self._norm_disj(out)

    def _refine(self, st, cond, kind):
        """Constraint sets (usually one; two when a != test splits an interval) for `st` on the given edge of `cond`."""
        alts = [list(st)]
        if self.ghost is not None:
            # a rule's ghost state (e.g. "how many leading bytes are known not to be NUL") learns from the edge first, in the
            # state the test was made in
            if kind in (True, False):
                for op, L, R, Le, Re in cond_atoms(cond, kind):
                    alts = [self.ghost.on_atom(self, cs, op, L, R, Le, Re) for cs in alts]
            elif isinstance(kind, tuple) and kind[0] == "case" and isinstance(kind[1], int):
                alts = [self.ghost.on_atom(self, cs, "==", norm(cond), ("c", kind[1]), cond, None) for cs in alts]
        if kind in (True, False):
            for op, L, R, Le, Re in cond_atoms(cond, kind):
                # the atom's constants are authoritative (cond_atoms also reports x > 4 as x >= 5 with the original elements)
                a = Lin.const(L[1]) if L[0] == "c" and isinstance(L[1], int) else (self.lin(Le, st) if Le is not None else None)
                b = Lin.const(R[1]) if R[0] == "c" and isinstance(R[1], int) else (self.lin(Re, st) if Re is not None else None)
                if a is None or b is None:
                    continue
                if op == "!=":
                    nxt = []
                    for cs in alts:
                        cur = frozenset(c for c in cs if isinstance(c, tuple))
                        if self.holds(cur, ">=", a, b):
                            nxt.append(cs + cons(">", a, b))
                        elif self.holds(cur, "<=", a, b):
                            nxt.append(cs + cons("<", a, b))
                        elif len(alts) < 4:
                            nxt.append(cs + cons("<", a, b))
                            nxt.append(cs + cons(">", a, b))
                        else:
                            nxt.append(cs)
                    alts = nxt
                    continue
                if op in ("<", ">") and Le is not None and Re is not None:
                    # two pointers to elements of one array (the only pointers C lets one order) differ by a multiple of the element
                    # size: p < q is p + size <= q
                    ta, tb = self._ty(Le.ty), self._ty(Re.ty)
                    if ta.get("kind") == "ptr" and tb.get("kind") == "ptr":
                        sa_, sb_ = self._ty(ta.get("pointee", "")).get("size"), self._ty(tb.get("pointee", "")).get("size")
                        if sa_ and sa_ == sb_ and sa_ > 1:
                            if op == "<":
                                alts = [cs + cons("<=", a + Lin.const(sa_), b) for cs in alts]
                            else:
                                alts = [cs + cons(">=", a, b + Lin.const(sa_)) for cs in alts]
                            continue
                alts = [cs + cons(op, a, b) for cs in alts]
        elif isinstance(kind, tuple) and kind[0] == "case":
            a = self.lin(cond, st)
            if a is not None and isinstance(kind[1], int):
                alts = [cs + cons("==", a, Lin.const(kind[1])) for cs in alts]
        res = []
        for cs in alts:
            s2 = _simplify(cs)
            if s2 is False:
                continue
            if not feasible(s2 + self._bounds(self._vars(s2))):
                continue
            res.append(frozenset(s2))
        return res

    # -- join ----------------------------------------------------------------------------
    @staticmethod
    def _eq_halves(P):
        """The constraints of P that are one half of an equality (their mirror image is in P too)."""
        S = set(P)
        out = []
        for c in P:
            m = (tuple((v, -k) for v, k in c[0]), -c[1])
            if m in S:
                out.append(c)
        return out

    def _joinP(self, a, b, widen=False):
        keep = [c for c in a if self._entailsP(b, [c])]
        if not widen:
            keep += [c for c in b if c not in a and self._entailsP(a, [c])]
        # sums of two equalities of one side that the other side satisfies: "x == x0 and n == n0" joined with
        # "x == x0 + d and n == n0 - d" keeps x + n == x0 + n0 (a quantity both sides preserve)
        for X, Y in ((a, b),) if widen else ((a, b), (b, a)):
            hs = self._eq_halves(X)
            if 2 <= len(hs) <= 16:
                for i in range(len(hs)):
                    for j in range(i + 1, len(hs)):
                        c = le0(_lin_of_con(hs[i]) + _lin_of_con(hs[j]))
                        if isinstance(c, tuple) and c not in keep and self._entailsP(Y, [c]):
                            keep.append(c)
        # affine combinations (Karr): equalities l_i == 0, l_j == 0 of one side whose left sides are the constants d_i, d_j on the
        # other side give d_j*l_i - d_i*l_j == 0 on both: "p == out, i == 0" joined with "p == out + 2, i == 1" keeps p - 2i == out
        for X, Y in ((a, b),) if widen else ((a, b), (b, a)):
            hs = []
            for c in self._eq_halves(X):
                m = (tuple((v, -k) for v, k in c[0]), -c[1])
                if m not in hs:
                    hs.append(c)
            if 2 <= len(hs) <= getattr(self, "karr_cap", 8):
                ys = [_lin_of_con(c) for c in self._eq_halves(Y)]
                vals = [_affine_value(ys, _lin_of_con(c)) for c in hs]
                for i in range(len(hs)):
                    for j in range(i + 1, len(hs)):
                        di, dj = vals[i], vals[j]
                        if di is None or dj is None or di == 0 or dj == 0:
                            continue
                        l = _lin_of_con(hs[i]).scale(dj) - _lin_of_con(hs[j]).scale(di)
                        for c in (le0(l), le0(-l)):
                            if isinstance(c, tuple) and c not in keep:
                                keep.append(c)
        # template constraints x <= y between two variables of both sides (what both imply without either stating it):
        # this is what carries "cursor <= end" through a loop whose body re-derives it differently on every iteration
        va, vb = self._vars(a), self._vars(b)
        common = sorted((v for v in va & vb if not (isinstance(v, tuple) and v and v[0] == "$ret")), key=repr)
        if 2 <= len(common) <= 10:
            ka = set(keep)
            for x in common:
                for y in common:
                    if x is y:
                        continue
                    c = le0(Lin.var(x) - Lin.var(y))
                    if c in ka:
                        continue
                    if self._entailsP(a, [c]) and self._entailsP(b, [c]):
                        keep.append(c)
                        ka.add(c)
        r = _simplify(keep)
        return frozenset(_reduce(r) if r is not False else [])

    def _hull(self, D):
        lst = sorted(D, key=lambda P: (len(P), sorted(map(repr, P))))
        h = lst[0]
        for P in lst[1:]:
            h = self._joinP(h, P)
        return h

    def join(self, a, b, blk=None):
        self._budget()
        if a is None:
            return b
        if b is None:
            return a
        if a == b:
            return a
        if blk is not None and blk in self.heads:
            self.visits[blk] = self.visits.get(blk, 0) + 1
            if self.visits[blk] > 2:
                # widening at a loop head: one disjunct, only constraints of the old state that the new one satisfies
                return frozenset([self._joinP(self._hull(a), self._hull(b), widen=True)])
        return self._norm_disj(set(a) | set(b))

    # -- driver --------------------------------------------------------------------------
    def run(self):
        self._collect_locals()
        init = _simplify(self.init)
        start = frozenset([frozenset(init if init is not False else [((), 1)])])
        self.solver = Solver(self.f, start, self.transfer, self.refine, self.join, limit=80).run()
        return self

    def state_before(self, e):
        return self.solver.state_before(e)


def lin_of_norm(n):
    """Linear form of a norm() term built from +, -, constants, << by a constant and opaque terms (for specifications)."""
    if n[0] == "c":
        return Lin.const(n[1])
    if n[0] == "+" and len(n) == 3:
        return lin_of_norm(n[1]) + lin_of_norm(n[2])
    if n[0] == "-" and len(n) == 3:
        return lin_of_norm(n[1]) - lin_of_norm(n[2])
    if n[0] == "<<" and len(n) == 3 and n[2][0] == "c":
        return lin_of_norm(n[1]).scale(2 ** n[2][1])
    return Lin.var(n)
