"""In-memory form of the facts cfgx emits: Program > Unit > Func > Block > Elem,
with expression helpers (strip, norm, show) used by every rule."""
import json, os, re
from . import cdb

TRANSPARENT_CASTS = {"LValueToRValue", "NoOp", "BitCast", "IntegralCast",
                     "FunctionToPointerDecay", "ArrayToPointerDecay",
                     "NullToPointer", "IntegralToBoolean", "PointerToBoolean",
                     "ToVoid", "IntegralToPointer", "PointerToIntegral",
                     "BuiltinFnToFnPtr", "FloatingCast", "IntegralToFloating",
                     "FloatingToIntegral", "LValueBitCast"}


def relpath(p, repo):
    if not p:
        return p
    if p.startswith(repo.rstrip("/") + "/"):
        p = p[len(repo.rstrip("/")) + 1:]
    return p


class Elem:
    __slots__ = ("func", "block", "i", "cls", "op", "ty", "decl", "val", "strv",
                 "kidrefs", "loc", "macro", "text", "null", "label", "decls",
                 "argty", "argdecl", "argderef", "argtext", "lv", "_kids", "_norm", "iline", "inlined", "siteloc")

    def __init__(self, func, block, i, d, repo):
        self.func = func
        self.block = block
        self.i = i
        self.cls = d.get("cls")
        self.op = d.get("op")
        self.ty = d.get("ty")
        self.decl = d.get("decl")
        if self.decl and self.decl.get("kind") == "func" and self.decl["name"].startswith("libcperciva_"):
            # the headers rename public symbols with #define X libcperciva_X: rules use the source-level name
            self.decl = dict(self.decl, name=self.decl["name"][len("libcperciva_"):], symbol=self.decl["name"])
        v = d.get("val")
        self.val = int(v) if isinstance(v, str) else v
        self.strv = bytes.fromhex(d["str"]) if "str" in d else None
        self.kidrefs = d.get("kids") or []
        loc = d.get("loc", "")
        self.loc = relpath(loc, repo)
        self.macro = (d.get("macro") or []) + ([d["inlined"]] if d.get("inlined") else [])      # sa/inline.py: a macro turned into a function keeps its name
        self.text = d.get("text", "")
        self.null = d.get("null", False)
        self.label = d.get("label")
        self.decls = d.get("decls")
        self.argty = d.get("argty")
        self.argdecl = d.get("argdecl")
        self.argderef = d.get("argderef", False)
        self.argtext = d.get("argtext")
        self.lv = d.get("lv", False)
        self.iline = d.get("iline")          # set by sa/inline.py on elements copied from a new static helper
        self.inlined = d.get("inlined")
        self.siteloc = relpath(d["siteloc"], repo) if d.get("siteloc") else None      # where the helper this element was copied from is called
        self._kids = None
        self._norm = None

    # -- structure ------------------------------------------------------
    @property
    def kids(self):
        if self._kids is None:
            f = self.func
            self._kids = [f.elem(r) if r is not None else None for r in self.kidrefs]
        return self._kids

    def kid(self, n):
        k = self.kids
        return k[n] if n < len(k) else None

    @property
    def pos(self):
        return (self.block.id, self.i)

    @property
    def line(self):
        if self.iline:
            # an element inlined from a new helper is ordered at its call site (then by the helper's own lines)
            return self.iline
        m = re.match(r".*:(\d+):\d+$", self.loc or "")
        return int(m.group(1)) if m else 0

    @property
    def where(self):
        return "%s (%s)" % (self.loc.rsplit(":", 1)[0] if self.loc else "?", self.func.name)

    def in_macro(self, name):
        return name in self.macro

    def strip(self):
        """Look through casts that do not change the value."""
        e = self
        while e is not None and e.cls in ("ImplicitCastExpr", "CStyleCastExpr") and e.kids:
            e = e.kids[0]
        return e

    def strip_lv(self):
        """Look through casts but keep track that a load happened."""
        return self.strip()

    # -- classification -------------------------------------------------
    @property
    def is_call(self):
        return self.cls == "CallExpr"

    @property
    def callee(self):
        """Name of the directly called function, or None for indirect calls."""
        if self.cls != "CallExpr":
            return None
        if self.decl:
            # memmove does everything memcpy does: rules that look for a copy see one name; a rule that needs to know
            # that overlapping operands are handled asks callee_real
            return CALLEE_ALIAS.get(self.decl["name"], self.decl["name"])
        return None

    @property
    def callee_real(self):
        return self.decl["name"] if self.cls == "CallExpr" and self.decl else None

    @property
    def args(self):
        return self.kids[1:] if self.cls == "CallExpr" else []

    def arg(self, n):
        a = self.args
        return a[n] if n < len(a) else None

    @property
    def is_assign(self):
        return self.cls in ("BinaryOperator", "CompoundAssignOperator") and self.op in (
            "=", "+=", "-=", "*=", "/=", "%=", "<<=", ">>=", "&=", "|=", "^=")

    @property
    def is_incdec(self):
        return self.cls == "UnaryOperator" and self.op in ("post++", "post--", "pre++", "pre--")

    @property
    def name(self):
        return self.decl["name"] if self.decl else None

    def __repr__(self):
        return "<%s %s @%s>" % (self.cls, self.text[:40], self.loc)


COMMUTATIVE = ("+", "*", "&", "|", "^", "==", "!=")
CALLEE_ALIAS = {"memmove": "memcpy", "__builtin_memmove": "memcpy", "__builtin_memcpy": "memcpy"}


def commute(a, b):
    """Canonical operand order for commutative operators: constants last, otherwise by a stable structural key
    (so `2 * i + 1`, `1 + i * 2` and `i * 2 + 1` are one form)."""
    ka = (1 if a[0] == "c" else 0, _key(a))
    kb = (1 if b[0] == "c" else 0, _key(b))
    return (a, b) if ka <= kb else (b, a)


def P(ptr, idx):
    """Address of element idx of the array ptr points to, the way norm() spells ptr + idx, idx + ptr and &ptr[idx]."""
    return ("&", ("[]", ptr, idx))


def _pow2(n):
    """k if n is the constant 2^k with k >= 1."""
    if isinstance(n, tuple) and n[0] == "c" and isinstance(n[1], int) and n[1] >= 2 and n[1] & (n[1] - 1) == 0:
        return n[1].bit_length() - 1
    return None


def canon_pow2(op, a, b, unsigned=True):
    """One spelling for arithmetic with a power-of-two constant: x * 2^k == x << k (in modular arithmetic, whatever
    the signedness); for unsigned operands x / 2^k == x >> k and x % 2^k == x & (2^k - 1).  Returns (op, a, b)."""
    if op == "*":
        k = _pow2(b)
        if k is not None and a[0] != "c":
            return ("<<", a, ("c", k))
        k = _pow2(a)
        if k is not None and b[0] != "c":
            return ("<<", b, ("c", k))
    elif unsigned and op == "/":
        k = _pow2(b)
        if k is not None and a[0] != "c":
            return (">>", a, ("c", k))
    elif unsigned and op == "%":
        k = _pow2(b)
        if k is not None and a[0] != "c":
            return ("&", a, ("c", b[1] - 1))
    return (op, a, b)


def B(op, a, b):
    """Build a binary norm term the way norm() would (canonical operand order for commutative operators, one
    spelling for power-of-two arithmetic; the quantities rules describe with / and % are unsigned)."""
    op, a, b = canon_pow2(op, a, b)
    if op in COMMUTATIVE:
        a, b = commute(a, b)
    return (op, a, b)


def _key(n):
    """Structural sort key that ignores declaration ids (they differ between units)."""
    if isinstance(n, tuple):
        if n and n[0] == "v":
            return ("v", n[1])
        return tuple(_key(k) for k in n)
    return (type(n).__name__, n) if not isinstance(n, str) else n


def norm(e):
    """Canonical structural form of an expression: nested tuples that ignore
    parentheses and value-preserving casts.  Equal tuples <=> structurally
    equal expressions over the same declarations."""
    if e is None:
        return ("?",)
    if e._norm is not None:
        return e._norm
    r = _norm(e)
    e._norm = r
    return r


def _norm(e):
    c = e.cls
    if c in ("ImplicitCastExpr", "CStyleCastExpr"):
        if c == "ImplicitCastExpr" and e.op == "LValueToRValue":
            # a read of a NEW local (one the pinned tree's version of the function does not have) that holds, on every path
            # to this read, the value of a side-effect-free expression whose operands have not changed since: the read is that
            # expression (a temporary introduced for a repeated sub-expression does not change what a rule sees)
            k = e.kid(0)
            if k is not None and k.cls == "DeclRefExpr" and k.decl and k.decl.get("kind") == "local":
                t = e.func.avail_value(e, k.decl.get("id"))
                if t is not None:
                    return t
        return norm(e.kid(0))
    if e.val is not None and c not in ("DeclRefExpr",) or (c == "DeclRefExpr" and e.decl and e.decl.get("kind") == "enumconst"):
        if e.val is not None:
            return ("c", e.val)
    if c == "DeclRefExpr":
        d = e.decl
        if d["kind"] == "func":
            return ("fn", d["name"])
        return ("v", d["name"], d["id"])
    if c == "MemberExpr":
        base = norm(e.kid(0))
        if e.op == "->":
            base = base[1] if base[0] == "&" and len(base) == 2 else ("*", base)      # (&a[i])->m is a[i].m
        return (".", base, e.decl["name"])
    if c == "UnaryOperator":
        k = norm(e.kid(0))
        if e.op == "*":
            if k[0] == "&":
                return k[1]
            return ("*", k)
        if e.op == "&":
            if k[0] == "*":
                return k[1]
            return ("&", k)
        return ("u" + e.op, k)
    if c == "ArraySubscriptExpr":
        return ("[]", norm(e.kid(0)), norm(e.kid(1)))
    if c in ("BinaryOperator", "CompoundAssignOperator"):
        a, b = norm(e.kid(0)), norm(e.kid(1))
        op = e.op
        if c == "BinaryOperator" and op == "+":
            # pointer + integer is the address of an element: one spelling for p + i, i + p and &p[i]
            types = e.func.unit.types
            ka, kb = (types.get(e.kid(0).ty) or {}).get("kind"), (types.get(e.kid(1).ty) or {}).get("kind")
            if ka == "ptr" and kb in ("int", "enum", "bool"):
                return ("&", ("[]", a, b))
            if kb == "ptr" and ka in ("int", "enum", "bool"):
                return ("&", ("[]", b, a))
        if c == "BinaryOperator" and op in ("*", "/", "%"):
            t = e.func.unit.types.get(e.ty) or {}
            op, a, b = canon_pow2(op, a, b, unsigned=(t.get("kind") == "int" and t.get("signed") is False))
        if c == "BinaryOperator" and a[0] == "c" and b[0] == "c" and isinstance(a[1], int) and isinstance(b[1], int) and op in ("+", "-", "*", "<<", ">>", "&", "|", "^"):
            # two constants (the compiler folds the ones it sees; after a parameter has been replaced by a literal argument
            # -- sa/inline.py -- some are left): folded when the result is a small non-negative number, whatever the width
            try:
                v = {"+": a[1] + b[1], "-": a[1] - b[1], "*": a[1] * b[1], "<<": a[1] << b[1] if 0 <= b[1] < 31 else None, ">>": a[1] >> b[1] if 0 <= b[1] < 63 else None,
                     "&": a[1] & b[1], "|": a[1] | b[1], "^": a[1] ^ b[1]}[op]
            except (ValueError, OverflowError):
                v = None
            if v is not None and 0 <= a[1] < 2 ** 31 and 0 <= b[1] < 2 ** 31 and 0 <= v < 2 ** 31:
                return ("c", v)
        if c == "BinaryOperator" and op in COMMUTATIVE:
            a, b = commute(a, b)
        return (op, a, b)
    if c == "CallExpr":
        return ("call", e.callee or norm(e.kid(0))) + tuple(norm(a) for a in e.args)
    if c == "ConditionalOperator":
        return ("?:",) + tuple(norm(k) for k in e.kids)
    if c == "StringLiteral":
        return ("s", e.strv)
    if c == "UnaryExprOrTypeTraitExpr":
        return ("c", e.val)
    if c in ("IntegerLiteral", "CharacterLiteral"):
        return ("c", e.val)
    if e.null:
        return ("c", 0)
    return (c,) + tuple(norm(k) for k in e.kids)


def step(e):
    """(op, target, amount) with op '+=' or '-=' when the element adds to or subtracts from an lvalue in place:
    `x += k`, `x -= k` and, with amount 1, `x++`, `++x`, `x--`, `--x` (which is also what `x += 1` and `x = x + 1`
    are turned into when a function is loaded).  None otherwise."""
    if e.cls == "CompoundAssignOperator" and e.op in ("+=", "-="):
        return (e.op, norm(e.kid(0)), norm(e.kid(1)))
    if e.cls == "UnaryOperator" and e.op in ("post++", "pre++", "post--", "pre--"):
        return ("+=" if e.op.endswith("++") else "-=", norm(e.kid(0)), ("c", 1))
    return None


def _pure(n):
    """No call, increment or assignment inside a norm term (evaluating it twice is the same as once)."""
    for t in subterms(n):
        if isinstance(t, tuple) and t and isinstance(t[0], str) and (t[0] == "call" or t[0] in ("upost++", "upost--", "upre++", "upre--", "=") or t[0].endswith("=") and t[0] not in ("==", "!=", "<=", ">=")):
            return False
    return True


def show(n):
    """Readable rendering of a norm() tuple."""
    if not isinstance(n, tuple) or not n:
        return str(n)
    t = n[0]
    if not isinstance(t, str):
        return "(%s)" % ", ".join(show(a) for a in n)
    if t == "c":
        return str(n[1])
    if t == "v":
        return n[1]
    if t == "fn":
        return n[1]
    if t == ".":
        b = n[1]
        if b[0] == "*":
            return "%s->%s" % (show(b[1]), n[2])
        return "%s.%s" % (show(b), n[2])
    if t == "*" and len(n) == 2:
        return "*%s" % show(n[1])
    if t == "&" and len(n) == 2:
        return "&%s" % show(n[1])
    if t == "[]":
        return "%s[%s]" % (show(n[1]), show(n[2]))
    if t == "call":
        return "%s(%s)" % (n[1] if isinstance(n[1], str) else show(n[1]), ", ".join(show(a) for a in n[2:]))
    if t == "s":
        return repr(n[1])
    if len(n) == 3 and isinstance(t, str) and not t.isalpha():
        return "(%s %s %s)" % (show(n[1]), t, show(n[2]))
    if t.startswith("u") and len(n) == 2:
        return "%s%s" % (t[1:], show(n[1]))
    return "%s(%s)" % (t, ", ".join(show(a) for a in n[1:]))


def subterms(n):
    yield n
    if isinstance(n, tuple):
        for k in n[1:]:
            if isinstance(k, tuple):
                yield from subterms(k)


def root_var(n):
    """The variable an access path is rooted in: H->res.body -> ('v','H',id)."""
    while isinstance(n, tuple):
        if n[0] == "v":
            return n
        if n[0] in (".", "*", "&", "[]"):
            n = n[1]
            continue
        return None
    return None


class Block:
    __slots__ = ("func", "id", "elems", "term", "succs", "usuccs", "labels", "noreturn", "preds")

    def __init__(self, func, d, repo):
        self.func = func
        self.id = d["id"]
        self.elems = [Elem(func, self, i, e, repo) for i, e in enumerate(d["elems"])]
        self.term = d.get("term")
        if self.term and self.term.get("loc"):
            self.term["loc"] = relpath(self.term["loc"], repo)
        self.succs = d["succs"]
        self.usuccs = d.get("usuccs") or []
        self.labels = d.get("labels") or []
        self.noreturn = d.get("noreturn", False)
        self.preds = []

    @property
    def cond(self):
        """Condition element when the block has a two-way or switch exit."""
        if self.term and self.term.get("cond") is not None and len(self.succs) >= 2:
            return self.func.elem(self.term["cond"])
        if len(self.succs) == 2 and self.elems and not self.term:
            return self.elems[-1]
        return None

    @property
    def term_cls(self):
        return self.term["cls"] if self.term else None

    def case_values(self):
        return [l["case"] for l in self.labels if "case" in l]

    @property
    def is_default(self):
        return any("default" in l for l in self.labels)

    @property
    def goto_labels(self):
        return [l["label"] for l in self.labels if "label" in l]

    def __repr__(self):
        return "<B%d of %s>" % (self.id, self.func.name)


_PINNED_NAMES = None


def _pinned_names():
    global _PINNED_NAMES
    if _PINNED_NAMES is None:
        p = os.path.join(os.path.dirname(os.path.abspath(__file__)), "names.json")
        try:
            with open(p) as f:
                _PINNED_NAMES = json.load(f)
        except (OSError, ValueError):
            _PINNED_NAMES = {}
    return _PINNED_NAMES


def decl_signature(f):
    """[[kind, type, name]] of the function's parameters and locals in declaration order."""
    sig = [["param", p.get("ty", ""), p["name"]] for p in f.params]
    seen = set(p["id"] for p in f.params)
    decls = []
    for b in f.blocks.values():
        for e in b.elems:
            if e.cls == "DeclStmt" and e.decls:
                for d in e.decls:
                    if isinstance(d, dict) and "id" in d and d["id"] not in seen:
                        seen.add(d["id"])
                        decls.append((e.line, d["id"], d))
    for _, _, d in sorted(decls, key=lambda x: (x[0], x[1])):
        sig.append(["local", d.get("ty", ""), d["name"]])
    return sig


_LOCALREF = None


def _local_reference():
    global _LOCALREF
    if _LOCALREF is None:
        try:
            with open(os.path.join(os.path.dirname(os.path.abspath(__file__)), "localnames.json")) as fh:
                _LOCALREF = json.load(fh)
        except (OSError, ValueError):
            _LOCALREF = {}
    return _LOCALREF


class Func:
    def __init__(self, unit, d, repo):
        self.unit = unit
        self.symbol = d["name"]
        self.name = d["name"][len("libcperciva_"):] if d["name"].startswith("libcperciva_") else d["name"]
        self.id = d["id"]
        self.static = d.get("static", False)
        self.inline = d.get("inline", False)
        self.loc = relpath(d.get("loc", ""), repo)
        self.endloc = relpath(d.get("endloc", ""), repo)
        self.file = relpath(d.get("file", ""), repo)
        self.macro = d.get("macro") or []
        self.ret = d.get("ret")
        self.params = d.get("params", [])
        self.variadic = d.get("variadic", False)
        self.entry = d.get("entry")
        self.exit = d.get("exit")
        self.blocks = {}
        for b in d.get("blocks", []):
            self.blocks[b["id"]] = Block(self, b, repo)
        self._thread_shortcircuits()
        for b in self.blocks.values():
            for s in b.succs:
                if s is not None:
                    self.blocks[s].preds.append(b.id)
        self.renamed = {}
        if not os.environ.get("VERIF_NO_RENAME"):
            self._restore_names()
        self._canon_updates()
        self._dom = None
        self._pdom = None
        self._rpo = None
        # terms built while the function was being put together did not have the copy propagation of new locals
        for b in self.blocks.values():
            for x in b.elems:
                x._norm = None
        self._ready = True

    def elem(self, ref):
        return self.blocks[ref[0]].elems[ref[1]]

    # -- new locals: copy propagation ------------------------------------------------------------------------------------
    def new_locals(self):
        """ids of the locals of this function whose names the pinned tree's version of the function does not have
        (sa/localnames.json); empty when the function itself is not in the reference."""
        if getattr(self, "_new_locals", None) is not None:
            return self._new_locals
        out = set()
        ref = _local_reference().get(self.file, {}).get(self.symbol)
        if ref is None:
            ref = _local_reference().get(self.file, {}).get(self.name)
        if ref is not None and not os.environ.get("VERIF_NO_COPYPROP"):
            ref = set(ref)
            for b in self.blocks.values():
                for e in b.elems:
                    if e.cls == "DeclStmt":
                        for d in e.decls or []:
                            if isinstance(d, dict) and d.get("kind") == "local" and not d.get("static") and d.get("name") not in ref and not str(d.get("name", "")).startswith("$"):
                                out.add(d["id"])
        self._new_locals = out
        return out

    def avail_value(self, e, vid):
        """Term the new local `vid` is known to equal where element e reads it, or None."""
        nl = self.new_locals()
        if vid not in nl or getattr(self, "_avail_busy", False) or not getattr(self, "_ready", False):
            return None
        if getattr(self, "_avail", None) is None:
            self._avail_busy = True
            try:
                self._avail = self._avail_solve(nl)
            except Exception:
                self._avail = False
            finally:
                self._avail_busy = False
                # terms computed while the analysis ran were built without it: forget them
                for b in self.blocks.values():
                    for x in b.elems:
                        x._norm = None
        if not self._avail:
            return None
        st = self._avail.get(e.pos)
        if not st:
            return None
        for v, t in st:
            if v == vid:
                return t
        return None

    def _avail_solve(self, nl):
        """{element position: frozenset of (new local id, term)} just before each read of a new local: the available
        definitions (forward, must): `v = t` with t free of calls and assignments makes (v, t) available; a write to v, to a
        variable t mentions, any store through memory or non-pure call when t reads memory, kills it."""
        from .dataflow import Solver
        PURE = {"strlen", "__builtin_expect", "__builtin_constant_p"}

        def pure(t):
            for x in subterms(t):
                if isinstance(x, tuple) and x:
                    if x[0] == "call" and x[1] not in PURE:
                        return False
                    if isinstance(x[0], str) and (x[0] in ("=", "upost++", "upost--", "upre++", "upre--", "?") or (x[0].endswith("=") and x[0] not in ("==", "!=", "<=", ">="))):
                        return False
            return True

        def reads_memory(t):
            return any(isinstance(x, tuple) and x and x[0] in ("*", ".", "[]") for x in subterms(t))

        def mentions(t, vid):
            return any(isinstance(x, tuple) and len(x) > 2 and x[0] == "v" and x[2] == vid for x in subterms(t))

        def kill_var(st, vid):
            return frozenset((v, t) for v, t in st if v != vid and not mentions(t, vid))

        def kill_mem(st):
            return frozenset((v, t) for v, t in st if not reads_memory(t))

        def tr(st, e):
            if e.cls == "DeclStmt":
                for d in e.decls or []:
                    if isinstance(d, dict) and d.get("kind") == "local" and "id" in d:
                        st = kill_var(st, d["id"])
                        if d["id"] in nl and d.get("init"):
                            t = norm(self.elem(d["init"]))
                            if pure(t) and not mentions(t, d["id"]):
                                st = st | frozenset([(d["id"], t)])
                return st
            if e.is_assign or e.is_incdec:
                L = norm(e.kid(0))
                if L[0] == "v" and len(L) > 2:
                    st = kill_var(st, L[2])
                    if e.is_assign and e.op == "=" and L[2] in nl and e.kid(1) is not None:
                        t = norm(e.kid(1))
                        if pure(t) and not mentions(t, L[2]):
                            st = st | frozenset([(L[2], t)])
                    return st
                return kill_mem(st)
            if e.cls == "CallExpr":
                if e.callee in PURE:
                    return st
                st = kill_mem(st)
                for a in e.args:
                    if a is not None:
                        n = norm(a)
                        if n[0] == "&":
                            r = root_var(n[1])
                            if r is not None and len(r) > 2:
                                st = kill_var(st, r[2])
                return st
            if e.cls == "UnaryOperator" and e.op == "&":
                n = norm(e.kid(0))
                if n[0] == "v" and len(n) > 2:
                    return kill_var(st, n[2])         # its address escapes: writes to it are no longer seen
            return st
        TOP = None

        def join(a, b):
            if a is TOP:
                return b
            if b is TOP:
                return a
            return a & b
        sv = Solver(self, frozenset(), tr, None, join).run()
        out = {}

        def visit(e, st):
            if e.cls == "ImplicitCastExpr" and e.op == "LValueToRValue" and st:
                k = e.kid(0)
                if k is not None and k.cls == "DeclRefExpr" and k.decl and k.decl.get("id") in nl:
                    out[e.pos] = st
        sv.visit(visit)
        return out

    def single_defs(self):
        """{local variable term: norm of the one expression it is ever given} for locals with exactly one write (an initialiser or
        one `=`), whose address is not taken, given a side-effect-free expression built only from constants, parameters that are
        never written, and other such locals.  Such a local is a name for its expression everywhere after the definition, so a rule
        may read through it (`p = (rc - 1) / 2; swap(rc, p)` is `swap(rc, (rc - 1) / 2)`)."""
        if getattr(self, "_single_defs", None) is not None:
            return self._single_defs
        pids = set(p["id"] for p in self.params)
        writes = {}
        taken = set()
        defs = {}
        for e in self.all_elems():
            if e.cls == "DeclStmt":
                for d in e.decls or []:
                    if isinstance(d, dict) and d.get("kind") == "local" and not d.get("static"):
                        v = ("v", d["name"], d["id"])
                        writes.setdefault(v, 0)
                        if d.get("init"):
                            writes[v] += 1
                            try:
                                defs[v] = norm(self.elem(d["init"]))
                            except (KeyError, IndexError, TypeError):
                                writes[v] += 1
            elif e.is_assign or e.is_incdec:
                t = norm(e.kid(0))
                if t[0] == "v":
                    writes[t] = writes.get(t, 0) + 1
                    if e.is_assign and e.op == "=" and len(t) > 2:
                        defs[t] = norm(e.kid(1))
                    else:
                        writes[t] += 1
            elif e.cls == "UnaryOperator" and e.op == "&":
                t = norm(e.kid(0))
                if t[0] == "v":
                    taken.add(t)
        stable = set()

        def ok_term(t, depth=0):
            if depth > 6:
                return False
            for x in subterms(t):
                if isinstance(x, tuple) and x and x[0] == "v" and len(x) > 2:
                    if x[2] in pids:
                        if writes.get(x, 0) or x in taken:
                            return False
                    elif x in out:
                        continue
                    else:
                        return False
                elif isinstance(x, tuple) and x and x[0] in ("*", ".", "[]"):
                    return False          # memory: may change between the definition and the use
            return _pure(t)
        out = {}
        changed = True
        while changed:
            changed = False
            for v, rhs in defs.items():
                if v in out or v[2] in pids or writes.get(v, 0) != 1 or v in taken:
                    continue
                if ok_term(rhs):
                    out[v] = rhs
                    changed = True
        self._single_defs = out
        return out

    def expand(self, t):
        """norm term `t` with single-definition locals replaced by their expressions (see single_defs)."""
        d = self.single_defs()
        if not d:
            return t

        def go(x, depth=0):
            if isinstance(x, tuple):
                if x in d and depth < 8:
                    return go(d[x], depth + 1)
                return tuple(go(k, depth) for k in x)
            return x
        return go(t)

    def _thread_shortcircuits(self):
        """clang gives the condition of a do-while (unlike if / while / for) a block of its own in which the values of a
        chain of && / || are merged before the loop branches on the merged value; a path-insensitive walk then sees the edge
        "first operand false" continue into "condition true".  The short-circuit edges into such a merge block decide the
        whole condition (false for &&, true for ||), so they are sent straight to the corresponding successor."""
        for B in self.blocks.values():
            if not B.term or B.term.get("cls") not in ("DoStmt", "WhileStmt", "ForStmt", "IfStmt") or len(B.succs) != 2:
                continue
            if not B.elems or B.elems[0].cls != "BinaryOperator" or B.elems[0].op not in ("&&", "||"):
                continue
            # the merged value may be negated before it is branched on: if (!(a && b)) -- each further element must be a `!` of the
            # one before it
            neg = 0
            prev = B.elems[0]
            plain = True
            for x in B.elems[1:]:
                inner = x.kid(0).strip() if (x.cls == "UnaryOperator" and x.op == "!" and x.kid(0) is not None) else None
                if inner is not prev:
                    plain = False
                    break
                neg += 1
                prev = x
            if not plain:
                continue
            t, fl = (B.succs[0], B.succs[1]) if neg % 2 == 0 else (B.succs[1], B.succs[0])
            for P in self.blocks.values():
                if P is B or not P.term or P.term.get("cls") != "BinaryOperator" or P.term.get("op") not in ("&&", "||") or len(P.succs) != 2:
                    continue
                if P.term["op"] == "&&" and P.succs[1] == B.id:
                    P.succs[1] = fl
                elif P.term["op"] == "||" and P.succs[0] == B.id:
                    P.succs[0] = t

    def _restore_names(self):
        """A parameter or local that was merely renamed gets the name it has on the pinned tree back (sa/names.json): when
        the function declares the same kinds and types in the same order and only names differ, rules that identify a
        variable by its name still find it.  Any other difference (a declaration added, removed or retyped) disables this
        for the function, and a rule that cannot find its variable answers `analysis broken` as before."""
        pinned = (_pinned_names().get(self.file) or {}).get(self.symbol)
        if not pinned:
            return
        cur = decl_signature(self)
        if len(cur) != len(pinned) or any(a[0] != b[0] or a[1] != b[1] for a, b in zip(cur, pinned)):
            return
        if all(a[2] == b[2] for a, b in zip(cur, pinned)):
            return
        # ids in the same order as decl_signature
        ids = [p["id"] for p in self.params]
        seen = set(ids)
        decls = []
        for b in self.blocks.values():
            for e in b.elems:
                if e.cls == "DeclStmt" and e.decls:
                    for d in e.decls:
                        if isinstance(d, dict) and "id" in d and d["id"] not in seen:
                            seen.add(d["id"])
                            decls.append((e.line, d["id"]))
        ids += [i for _, i in sorted(decls)]
        ren = {i: old[2] for i, old, new in zip(ids, pinned, cur) if old[2] != new[2]}
        if len(set(x[2] for x in pinned)) != len(pinned):
            return
        self.renamed = {new[2]: old[2] for old, new in zip(pinned, cur) if old[2] != new[2]}
        for p in self.params:
            if p["id"] in ren:
                p["name"] = ren[p["id"]]
        for b in self.blocks.values():
            for e in b.elems:
                if e.decl and e.decl.get("kind") in ("local", "param") and e.decl.get("id") in ren:
                    e.decl = dict(e.decl, name=ren[e.decl["id"]])
                if e.cls == "DeclStmt" and e.decls:
                    for d in e.decls:
                        if isinstance(d, dict) and d.get("id") in ren:
                            d["name"] = ren[d["id"]]

    def _canon_updates(self):
        """One spelling for update statements, so that no rule depends on which one the source uses:
        `x = x + k`, `x = k + x` -> `x += k`;  `x = x - k` -> `x -= k`;  `x += 1` -> `++x`;  `x -= 1` -> `--x`.
        (The value of `x += 1` is the value of `++x`; the left side must be free of side effects.)"""
        for b in self.blocks.values():
            for e in b.elems:
                if e.cls == "BinaryOperator" and e.op == "=" and len(e.kidrefs) == 2:
                    lhs, rhs = e.kid(0), e.kid(1)
                    r = rhs.strip() if rhs is not None else None
                    if lhs is not None and r is not None and r.cls == "BinaryOperator" and r.op in ("+", "-") and len(r.kidrefs) == 2:
                        ln = norm(lhs)
                        if _pure(ln):
                            if norm(r.kid(0)) == ln:
                                e.cls, e.op, e.kidrefs = "CompoundAssignOperator", r.op + "=", [e.kidrefs[0], r.kidrefs[1]]
                                e._kids = None
                            elif r.op == "+" and norm(r.kid(1)) == ln:
                                e.cls, e.op, e.kidrefs = "CompoundAssignOperator", "+=", [e.kidrefs[0], r.kidrefs[0]]
                                e._kids = None
                if e.cls == "CompoundAssignOperator" and e.op in ("+=", "-=") and len(e.kidrefs) == 2 and norm(e.kid(1)) == ("c", 1):
                    e.cls, e.op, e.kidrefs = "UnaryOperator", ("pre++" if e.op == "+=" else "pre--"), [e.kidrefs[0]]
                    e._kids = None
        for b in self.blocks.values():
            for e in b.elems:
                e._norm = None

    @property
    def qname(self):
        return "%s:%s" % (self.unit.path, self.name) if self.static else self.name

    def all_elems(self):
        for b in self.blocks.values():
            for e in b.elems:
                yield e

    def calls(self, name=None):
        for e in self.all_elems():
            if e.cls == "CallExpr" and (name is None or e.callee == name or (isinstance(name, (set, frozenset, tuple, list)) and e.callee in name)):
                yield e

    def param_names(self):
        return [p["name"] for p in self.params]

    def returns(self):
        for e in self.all_elems():
            if e.cls == "ReturnStmt":
                yield e

    # -- graph helpers --------------------------------------------------
    def rpo(self):
        if self._rpo is None:
            seen, order = set(), []
            # successors are visited last-first, so that a loop's body precedes the loop's exit in the resulting order: a
            # worklist that follows it iterates inner loops to their fixpoint before anything after them is looked at
            stack = [(self.entry, iter([s for s in reversed(self.blocks[self.entry].succs) if s is not None]))]
            seen.add(self.entry)
            while stack:
                n, it = stack[-1]
                adv = False
                for s in it:
                    if s not in seen:
                        seen.add(s)
                        stack.append((s, iter([x for x in reversed(self.blocks[s].succs) if x is not None])))
                        adv = True
                        break
                if not adv:
                    order.append(n)
                    stack.pop()
            self._rpo = order[::-1]
        return self._rpo

    def reachable(self):
        return set(self.rpo())

    def dominators(self):
        """block id -> set of dominating block ids (including itself)."""
        if self._dom is None:
            order = self.rpo()
            allb = set(order)
            dom = {b: set(allb) for b in order}
            dom[self.entry] = {self.entry}
            ch = True
            while ch:
                ch = False
                for b in order:
                    if b == self.entry:
                        continue
                    ps = [p for p in self.blocks[b].preds if p in allb]
                    new = set.intersection(*[dom[p] for p in ps]) if ps else set()
                    new = new | {b}
                    if new != dom[b]:
                        dom[b] = new
                        ch = True
            self._dom = dom
        return self._dom

    def dominates(self, a, b):
        """Element a dominates element b (a executes before b on every path)."""
        if a.block.id == b.block.id:
            return a.i < b.i
        d = self.dominators()
        return b.block.id in d and a.block.id in d[b.block.id]

    def reach_from(self, bid, stop=()):
        """Blocks reachable from the successors of bid (not through stop)."""
        seen = set()
        work = [s for s in self.blocks[bid].succs if s is not None]
        while work:
            n = work.pop()
            if n in seen or n in stop:
                continue
            seen.add(n)
            work.extend(s for s in self.blocks[n].succs if s is not None)
        return seen

    def reach_avoiding(self, start, target, avoid):
        """Is block `target` reachable from block `start` without entering block `avoid`?"""
        seen = set()
        work = [start]
        while work:
            n = work.pop()
            if n == target:
                return True
            if n in seen or n == avoid:
                continue
            seen.add(n)
            work.extend(s for s in self.blocks[n].succs if s is not None)
        return False

    def edge_conds(self, target):
        """[(cond elem, truth)] for every two-way branch that dominates the
        element `target` and only one of whose edges can reach it."""
        res = []
        dom = self.dominators()
        tb = target.block.id
        for b in self.blocks.values():
            if b.cond is None or len(b.succs) != 2 or b.id == tb or b.id not in dom.get(tb, ()):
                continue
            t, fl = b.succs
            rt = t is not None and self.reach_avoiding(t, tb, b.id)
            rf = fl is not None and self.reach_avoiding(fl, tb, b.id)
            if rt and not rf:
                res.append((b.cond, True))
            elif rf and not rt:
                res.append((b.cond, False))
        return res

    def returns_from(self, start):
        """Norms of the values of every return statement reachable from block `start`, and the set of blocks visited."""
        seen = set()
        work = [start]
        vals = []
        while work:
            n = work.pop()
            if n is None or n in seen:
                continue
            seen.add(n)
            blk = self.blocks[n]
            rets = [e for e in blk.elems if e.cls == "ReturnStmt"]
            if rets:
                vals.append(norm(rets[0].kid(0)) if rets[0].kids else None)
                continue
            work.extend(blk.succs)
        return vals, seen

    def always_passes(self, a, b):
        """Every path from element a to the function exit passes element b's block."""
        if a.block.id == b.block.id:
            return b.i > a.i
        return not self.reach_avoiding(a.block.id, self.exit, b.block.id) or a.block.id == b.block.id

    def __repr__(self):
        return "<Func %s>" % self.qname


class Unit:
    def __init__(self, path, facts, repo, inline_helpers=True):
        self.path = path
        self.repo = repo
        self.records = facts.get("records", {})
        self.types = facts.get("types", {})
        self.enums = {k: (int(v) if isinstance(v, str) else v) for k, v in facts.get("enums", {}).items()}
        self.globals = facts.get("globals", [])
        for g in self.globals:
            g["loc"] = relpath(g.get("loc", ""), repo)
            g["file"] = relpath(g.get("file", ""), repo)
        # new static helpers (functions the pinned tree does not have) are inlined into their callers, so that a rule about a
        # function's statements still sees them after an "extract function" refactoring (sa/inline.py)
        self.inlined = []
        if inline_helpers and not os.environ.get("VERIF_NO_INLINE"):
            from . import inline
            try:
                self.inlined = inline.apply(facts, repo)
            except Exception as ex:           # never let the convenience break the analysis: fall back to the plain facts
                self.inlined = []
        # a helper that has been inlined at every one of its call sites is not looked at on its own in this view (out of its
        # callers' context a relational rule has nothing to decide it from); Program.raw() is the view that keeps it
        gone = set(self.inlined)
        self.funcs = [Func(self, f, repo) for f in facts.get("functions", []) if f["name"] not in gone]
        self.by_name = {}
        for f in self.funcs:
            self.by_name.setdefault(f.name, f)

    def func(self, name):
        return self.by_name.get(name)

    def global_(self, name):
        best = None
        for g in self.globals:
            if g["name"] == name:
                if g.get("hasinit") or best is None:
                    best = g
        return best

    def global_ints(self, name):
        g = self.global_(name)
        if not g or not g.get("init"):
            return None
        init = g["init"]
        if "ints" in init:
            return [int(x) if isinstance(x, str) else x for x in init["ints"]]
        if "str" in init:
            return list(bytes.fromhex(init["str"]))
        if "int" in init:
            v = init["int"]
            return [int(v) if isinstance(v, str) else v]
        return None

    def sizeof(self, ty):
        t = self.types.get(ty)
        return t.get("size") if t else None


class Program:
    """All units of one configuration."""

    def __init__(self, units=None, config=cdb.HOST, repo=None, inline_helpers=True, _paths=None):
        self.repo = repo or cdb.REPO
        self.config = config
        paths = _paths if _paths is not None else cdb.extract(units, config, self.repo)
        self._paths = paths
        self._inline = inline_helpers
        self._raw = None
        self.units = {}
        for u, p in sorted(paths.items()):
            with open(p) as f:
                self.units[u] = Unit(u, json.load(f), self.repo, inline_helpers)
        self.funcs = {}        # non-static name -> Func (defined in its own unit)
        for u in self.units.values():
            for f in u.funcs:
                # header-inline/static functions appear in many units: keep the
                # one whose defining file is the unit itself when possible
                if f.static:
                    continue
                if f.name not in self.funcs or f.file == u.path:
                    self.funcs[f.name] = f

    def raw(self):
        """The same program without the inlining of new static helpers (sa/inline.py): the view for rules that work with
        per-function summaries (ownership, failure reporting, the reference tables of sa/common.py), which follow a helper
        through its summary and would lose sight of an acquisition that has become an assignment from a placeholder."""
        if not any(u.inlined for u in self.units.values()):
            return self
        if self._raw is None:
            self._raw = Program(None, self.config, self.repo, inline_helpers=False, _paths=self._paths)
        return self._raw

    def unit(self, path):
        u = self.units.get(path)
        if u is None:
            raise cdb.AnalysisBroken("unit %s is not part of the analysed program" % path)
        return u

    def func(self, unit, name):
        f = self.unit(unit).func(name)
        if f is None:
            raise cdb.AnalysisBroken("anchor missing: function %s in %s" % (name, unit))
        return f

    def resolve(self, caller, name):
        """Callee definition for a direct call made in `caller`."""
        f = caller.unit.by_name.get(name)
        if f is not None:
            return f
        return self.funcs.get(name)

    def all_funcs(self, own_only=True):
        for u in self.units.values():
            for f in u.funcs:
                if own_only and f.file != u.path and not (f.file or "").endswith("_shared.c"):
                    continue
                yield f

    def stats(self):
        nf = nb = ne = 0
        for u in self.units.values():
            for f in u.funcs:
                nf += 1
                nb += len(f.blocks)
                ne += sum(len(b.elems) for b in f.blocks.values())
        return {"units": len(self.units), "functions": nf, "blocks": nb, "elements": ne}
