#!/usr/bin/env python3
"""Driver: python3 sa/check.py <ID> --tier quick|thorough [--repo DIR]
          python3 sa/check.py --replay <violation.json>

exit 0  every obligation discharged (known findings are printed, not failed)
exit 1  'VIOLATION property=<id> replay=<path>' printed for each refuted obligation
exit 2  analysis broken (unit failed to parse, anchor gone, rule matched fewer
        instances than confirmed, positive control did not fire): nothing claimed
"""
import sys, os, json, importlib, traceback, glob

sys.path.insert(0, os.path.dirname(os.path.dirname(os.path.abspath(__file__))))


def main(argv):
    args = argv[1:]
    tier = os.environ.get("VERIF_TIER", "quick")
    pid = None
    repo = None
    replay = None
    i = 0
    while i < len(args):
        a = args[i]
        if a == "--tier":
            tier = args[i + 1]; i += 2
        elif a == "--repo":
            repo = args[i + 1]; i += 2
        elif a == "--replay":
            replay = args[i + 1]; i += 2
        else:
            pid = a; i += 1
    if repo:
        os.environ["VERIF_REPO"] = repo
    from sa import cdb
    if repo:
        cdb.REPO = repo
    if replay:
        with open(replay) as f:
            v = json.load(f)
        print(json.dumps(v, indent=1))
        pid = os.path.basename(replay).split("-")[0]
        print("re-running %s to show the instance in context:" % pid)
    if not pid:
        print(__doc__)
        return 2
    if tier not in ("quick", "thorough"):
        tier = "quick"
    from sa import report
    evdir = os.environ.get("VERIF_EVIDENCE_DIR") or os.path.join(cdb.VERIF, "evidence")
    for old in glob.glob(os.path.join(evdir, "violations", pid + "-*.json")):
        if not replay:
            os.unlink(old)
    try:
        mod = importlib.import_module("sa.rules." + pid.lower())
        rep = mod.run(tier)
        # the reference rules every property runs on the files it is anchored in (sa/common.py)
        from sa import common
        import json as _json
        anchors = []
        for _l in open(os.path.join(cdb.VERIF, "properties.jsonl")):
            _d = _json.loads(_l)
            if _d["id"] == pid:
                anchors = _d["anchors"]["files"]
        common.apply(rep, pid, anchors, tier)
        selfcheck_failed = False
        if tier == "thorough" and not repo and not os.environ.get("VERIF_NO_SELFTEST"):
            # checker self-validation: every recorded one-instance mutation must be detected on a scratch copy,
            # every recorded behaviour-preserving edit must stay quiet
            import subprocess, re
            if pid in ("C06", "C07", "C08", "C09", "C11", "C12", "C15", "C16"):
                # the relational domain these checks rely on: claims it must prove and false claims it must not prove (fixtures/poly.c)
                from sa import selftest_poly
                nclaims, wrong = selftest_poly.run()
                rep.notes.append("relational-domain self-test (fixtures/poly.c): %d claims, %d wrong" % (nclaims, len(wrong)))
                rep.stats["selftest_poly_claims"] = nclaims
                rep.stats["selftest_poly_wrong"] = len(wrong)
                if wrong or nclaims < 25:
                    selfcheck_failed = True
                    print("\n".join(wrong))
            for corpus in ("mutants", "benign", "seeded"):
                env = dict(os.environ, VERIF_CORPUS=corpus, VERIF_NO_SELFTEST="1")
                if corpus == "seeded":
                    if not glob.glob(os.path.join(cdb.VERIF, "seeded", pid + "-*", "patch.diff")):
                        continue
                    r = subprocess.run([sys.executable, os.path.join(cdb.VERIF, "tools", "seeds.py"), pid, "-j", "2"], capture_output=True, text=True, env=env)
                else:
                    if not os.path.exists(os.path.join(cdb.VERIF, corpus, pid + ".json")):
                        continue
                    r = subprocess.run([sys.executable, os.path.join(cdb.VERIF, "tools", "mutants.py"), pid], capture_output=True, text=True, env=env)
                m = re.search(r"(\d+) (?:mutants|seeds) run, (\d+) missed(?:, (\d+) skipped)?", r.stdout)
                ran, missed, skipped = (int(m.group(1)), int(m.group(2)), int(m.group(3) or 0)) if m else (0, 1, 0)
                rep.notes.append("self-validation on scratch copies (%s corpus): %d run, %d %s, %d skipped (pattern no longer in the tree)" % (
                    corpus, ran, missed, "false alarms" if corpus == "benign" else "missed", skipped))
                rep.stats["selfcheck_%s_run" % corpus] = ran
                rep.stats["selfcheck_%s_failed" % corpus] = missed
                rep.stats["selfcheck_%s_skipped" % corpus] = skipped
                if missed:
                    selfcheck_failed = True
                    print(r.stdout[-1500:])
            # the independently written behaviour-preserving refactorings of this property's files (benignseeds/, all twenty
            # quick checks on each): one that was quiet and is not any more is a regression of the machinery
            if glob.glob(os.path.join(cdb.VERIF, "benignseeds", pid + "-*", "patch.diff")):
                r = subprocess.run([sys.executable, os.path.join(cdb.VERIF, "tools", "benignseeds.py"), pid, "-j", "1"], capture_output=True, text=True,
                                   env=dict(os.environ, VERIF_NO_SELFTEST="1"))
                m = re.search(r"(\d+) refactorings run, (\d+) quiet, (\d+) with open false alarms, (\d+) regressed", r.stdout)
                ran, quiet, opened, regressed = (int(m.group(i_)) for i_ in (1, 2, 3, 4)) if m else (0, 0, 0, 1)
                rep.notes.append("independently written refactorings of this property's files (benignseeds/): %d run against all twenty quick checks, %d quiet, "
                                 "%d with open false alarms (DESIGN 9.5a), %d regressed" % (ran, quiet, opened, regressed))
                rep.stats["selfcheck_benignseeds_run"] = ran
                rep.stats["selfcheck_benignseeds_quiet"] = quiet
                rep.stats["selfcheck_benignseeds_open"] = opened
                if regressed:
                    selfcheck_failed = True
                    print(r.stdout[-1500:])
        rc = rep.finish()
        if selfcheck_failed and rc == 0:
            print("ANALYSIS-BROKEN property=%s: checker self-validation failed (a recorded mutant was missed or a benign edit alarmed)" % pid)
            return 2
        return rc
    except cdb.AnalysisBroken as e:
        print("ANALYSIS-BROKEN property=%s: %s" % (pid, e))
        return 2
    except Exception:
        traceback.print_exc()
        print("ANALYSIS-BROKEN property=%s: internal error in the checker" % pid)
        return 2


if __name__ == "__main__":
    sys.exit(main(sys.argv))
