"""E4f -- evaluation of a function's control-flow graph over known values (a finite-domain abstract interpreter).

A handful of terms (locals, one dereferenced cursor) carry concrete integer values, everything else is unknown.  Elements are
executed in CFG order; a branch whose condition evaluates is followed on that edge only, a branch on an unknown condition is
followed both ways unless the caller's policy picks an edge.  A run ends at a stop element chosen by the caller or at a
return statement.  Nothing of the analysed program is executed: this walks the graph clang built and folds the constant
sub-expressions the way the C abstract machine would (integer arithmetic, with wrap-around at assignment to an unsigned
object of known width).

Used to extract the transition relation of a hand-written state machine (one run per state and input symbol) so that the
machine can be compared with the grammar it is documented to accept.
"""
from .ir import norm, subterms
from .dataflow import edge_kinds


class Budget(Exception):
    pass


class Undecided(Exception):
    """An abstract value cannot answer (a comparison of an interval that straddles the bound, an addition that may carry)."""


class Iv:
    """Integer interval [lo, hi] (hi None: unbounded above): a length of which only a lower bound matters."""

    def __init__(self, lo, hi=None):
        self.lo, self.hi = lo, hi

    def _cmp(self, k, lt_all, ge_all):
        if not isinstance(k, int):
            raise Undecided()
        if lt_all(k):
            return True
        if ge_all(k):
            return False
        raise Undecided()

    def __lt__(self, k):
        return self._cmp(k, lambda k: self.hi is not None and self.hi < k, lambda k: self.lo >= k)

    def __le__(self, k):
        return self._cmp(k, lambda k: self.hi is not None and self.hi <= k, lambda k: self.lo > k)

    def __gt__(self, k):
        return self._cmp(k, lambda k: self.lo > k, lambda k: self.hi is not None and self.hi <= k)

    def __ge__(self, k):
        return self._cmp(k, lambda k: self.lo >= k, lambda k: self.hi is not None and self.hi < k)

    def __eq__(self, k):
        if isinstance(k, Iv):
            return (self.lo, self.hi) == (k.lo, k.hi)
        if isinstance(k, int) and (k < self.lo or (self.hi is not None and k > self.hi)):
            return False
        if isinstance(k, int) and self.lo == self.hi == k:
            return True
        raise Undecided()

    def __ne__(self, k):
        return not self.__eq__(k)

    def __hash__(self):
        return hash((self.lo, self.hi))

    def __bool__(self):
        return self.__ne__(0)

    def __add__(self, k):
        if not isinstance(k, int):
            raise Undecided()
        return Iv(self.lo + k, None if self.hi is None else self.hi + k)

    __radd__ = __add__

    def __sub__(self, k):
        return self.__add__(-k) if isinstance(k, int) else (_ for _ in ()).throw(Undecided())

    def __repr__(self):
        return "[%s,%s]" % (self.lo, "inf" if self.hi is None else self.hi)


class Bits:
    """Bit provenance: an unsigned value of width w each of whose bits is 0, 1, a named source bit (name, k), or None
    (unknown).  Shifts by constants, masks, and additions whose operands never have a possibly-set bit in the same place
    (t <<= 8; t += byte) are exact; anything else is Undecided."""

    def __init__(self, bits):
        self.b = tuple(bits)

    @staticmethod
    def const(v, w):
        return Bits((v >> i) & 1 for i in range(w))

    @staticmethod
    def sym(name, n, w=None):
        return Bits([(name, k) for k in range(n)] + [0] * ((w or n) - n))

    def resize(self, w):
        return Bits((self.b + (0,) * w)[:w])

    def _co(self, o):
        if isinstance(o, Bits):
            w = max(len(self.b), len(o.b))
            return self.resize(w), o.resize(w)
        if isinstance(o, int) and o >= 0:
            w = max(len(self.b), o.bit_length())
            return self.resize(w), Bits.const(o, w)
        raise Undecided()

    def __lshift__(self, n):
        if not isinstance(n, int) or n < 0:
            raise Undecided()
        return Bits(((0,) * n + self.b)[:len(self.b)])

    def __rshift__(self, n):
        if not isinstance(n, int) or n < 0:
            raise Undecided()
        return Bits(self.b[n:] + (0,) * min(n, len(self.b)))

    def __and__(self, o):
        a, c = self._co(o)
        return Bits(0 if (x == 0 or y == 0) else (y if x == 1 else (x if y == 1 else (x if x == y else None))) for x, y in zip(a.b, c.b))

    __rand__ = __and__

    def __or__(self, o):
        a, c = self._co(o)
        return Bits(y if x == 0 else (x if y == 0 else (1 if (x == 1 or y == 1) else (x if x == y else None))) for x, y in zip(a.b, c.b))

    __ror__ = __or__

    def __add__(self, o):
        a, c = self._co(o)
        if any(x != 0 and y != 0 for x, y in zip(a.b, c.b)):
            raise Undecided()        # a carry is possible
        return a | c

    __radd__ = __add__

    def __eq__(self, o):
        return isinstance(o, Bits) and self.b == o.b

    def __ne__(self, o):
        return not self.__eq__(o)

    def __hash__(self):
        return hash(self.b)

    def __lt__(self, o):
        raise Undecided()

    __le__ = __gt__ = __ge__ = __lt__

    def __bool__(self):
        raise Undecided()

    def __repr__(self):
        return "Bits(%s)" % ",".join("0" if x == 0 else "1" if x == 1 else "?" if x is None else "%s.%d" % x for x in self.b)


CMP = {"==": lambda a, b: a == b, "!=": lambda a, b: a != b, "<": lambda a, b: a < b, "<=": lambda a, b: a <= b,
       ">": lambda a, b: a > b, ">=": lambda a, b: a >= b}


def _cdiv(a, b):
    q = abs(a) // abs(b)
    return q if (a >= 0) == (b >= 0) else -q


ARITH = {"+": lambda a, b: a + b, "-": lambda a, b: a - b, "*": lambda a, b: a * b, "&": lambda a, b: a & b, "|": lambda a, b: a | b,
         "^": lambda a, b: a ^ b, "<<": lambda a, b: a << b if 0 <= b < 64 else None, ">>": lambda a, b: a >> b if 0 <= b < 64 else None,
         "/": lambda a, b: (None if b == 0 else (a / b if isinstance(a, float) or isinstance(b, float) else _cdiv(a, b))),
         "%": lambda a, b: a - b * _cdiv(a, b) if b != 0 and not isinstance(a, float) and not isinstance(b, float) else None}


def ev(n, env):
    """Value of a norm() term under env ({term: int or None}); None when unknown."""
    if not isinstance(n, tuple) or not n:
        return None
    if n in env:
        return env[n]
    t = n[0]
    if t == "c":
        return n[1] if isinstance(n[1], int) else None
    if t in CMP and len(n) == 3:
        a, b = ev(n[1], env), ev(n[2], env)
        try:
            return None if a is None or b is None else int(CMP[t](a, b))
        except (Undecided, TypeError):
            return None
    if t in ARITH and len(n) == 3:
        a, b = ev(n[1], env), ev(n[2], env)
        try:
            return None if a is None or b is None else ARITH[t](a, b)
        except (Undecided, TypeError):
            return None
    if t in ("upost++", "upost--") and len(n) == 2:
        # the increment is an element of its own and has been executed: the expression's value is the old one
        v = env.get(n[1])
        try:
            return None if v is None else (v - 1 if t == "upost++" else v + 1)
        except (Undecided, TypeError):
            return None
    if t in ("*", "[]") and "$read" in env:
        return env["$read"](n, env)
    if t == "call" and "$call" in env:
        return env["$call"](n, env)
    if t == "&&":
        a = ev(n[1], env)
        if a == 0:
            return 0
        b = ev(n[2], env)
        if b == 0:
            return 0
        return None if a is None or b is None else 1
    if t == "||":
        a = ev(n[1], env)
        if a is not None and a != 0:
            return 1
        b = ev(n[2], env)
        if b is not None and b != 0:
            return 1
        return None if a is None or b is None else 0
    if t == "u!":
        a = ev(n[1], env)
        return None if a is None else int(a == 0)
    if t == "u-":
        a = ev(n[1], env)
        return None if a is None else -a
    if t == "u+":
        return ev(n[1], env)
    if t == "u~":
        a = ev(n[1], env)
        return None if a is None else ~a
    if t == "?:" and len(n) == 4:
        c = ev(n[1], env)
        if c is None:
            a, b = ev(n[2], env), ev(n[3], env)
            return a if a is not None and a == b else None
        return ev(n[2], env) if c else ev(n[3], env)
    if t == ",":
        return ev(n[-1], env)
    if t in ("+=", "-=", "*=", "/=", "%=", "<<=", ">>=", "&=", "|=", "^=", "upre++", "upre--") and len(n) >= 2:
        # executed already as an element of its own: the value of the expression is the object's value now
        return env.get(n[1]) if n[1] in env else None
    if t == "=" and len(n) == 3:
        # the element that performed the assignment has been executed already: the value is the object's
        return env[n[1]] if n[1] in env else ev(n[2], env)
    return None


class Walker:
    """tracked: {term: (signed, bits) or "float"} -- the terms that carry values (others are unknown and stores to them ignored).
    stop(elem) -> True ends a run at that element (before executing it).
    choose(cond_elem, env) -> True / False / None: the edge to take for a condition whose value is unknown (None: both)."""

    def __init__(self, func, tracked, stop, choose=None, limit=20000, watch=None, store=None):
        self.f = func
        self.watch = watch      # watch(elem, env): called for every element about to be executed
        self.store = store      # store(target_norm, value, env, elem): called for assignments to untracked lvalues
        self.tracked = tracked
        self.stop = stop
        self.choose = choose or (lambda c, env: None)
        self.limit = limit

    def _store(self, env, tgt, v):
        if tgt in self.tracked:
            if v is not None and self.tracked[tgt] == "float":
                v = float(v)
            elif isinstance(v, Bits):
                v = v.resize(self.tracked[tgt][1])
            elif isinstance(v, Iv):
                pass
            elif v is not None:
                if isinstance(v, float):
                    v = int(v)          # conversion to an integer type truncates towards zero
                signed, bits = self.tracked[tgt]
                if not signed:
                    v &= (1 << bits) - 1
                else:
                    v = ((v + (1 << (bits - 1))) & ((1 << bits) - 1)) - (1 << (bits - 1))
            env[tgt] = v
        else:
            # a store through something else may not touch the tracked objects (locals whose address is not taken and the
            # read-only cursor); terms computed through the target would be stale, none is tracked
            pass

    def _exec(self, e, env):
        if e.cls == "DeclStmt":
            for d in e.decls or []:
                if isinstance(d, dict) and d.get("kind") == "local":
                    t = ("v", d["name"], d["id"])
                    if t in self.tracked:
                        self._store(env, t, ev(norm(self.f.elem(d["init"])), env) if d.get("init") else None)
            return
        if e.is_assign:
            tgt = norm(e.kid(0))
            if tgt not in self.tracked:
                if self.store is not None:
                    r = ev(norm(e.kid(1)), env)
                    if e.op != "=":
                        cur, op = ev(tgt, env), e.op[:-1]
                        try:
                            r = None if cur is None or r is None or op not in ARITH else ARITH[op](cur, r)
                        except (Undecided, TypeError):
                            r = None
                    self.store(tgt, r, env, e)
                return
            r = ev(norm(e.kid(1)), env)
            if e.op == "=":
                self._store(env, tgt, r)
            else:
                op = e.op[:-1]
                cur = env.get(tgt)
                try:
                    self._store(env, tgt, None if cur is None or r is None or op not in ARITH else ARITH[op](cur, r))
                except (Undecided, TypeError):
                    self._store(env, tgt, None)
            return
        if e.is_incdec:
            tgt = norm(e.kid(0))
            if tgt in self.tracked:
                cur = env.get(tgt)
                try:
                    self._store(env, tgt, None if cur is None else cur + (1 if e.op.endswith("++") else -1))
                except (Undecided, TypeError):
                    self._store(env, tgt, None)
            else:
                # a tracked term computed through the stepped variable (the dereferenced cursor) is no longer known
                for k in list(env):
                    if any(s == tgt for s in subterms(k)):
                        env[k] = None

    def run(self, block, index, env):
        """Outcomes of executing from element `index` of `block`: list of ('stop', elem, env) and ('ret', value, env)."""
        out = []
        work = [(block, index, dict(env))]
        steps = 0
        seen = set()
        while work:
            bid, i, env = work.pop()
            key = (bid, i, tuple(sorted((repr(k), repr(v)) for k, v in env.items() if not (isinstance(k, str) and k.startswith("$")))))
            if key in seen:
                continue
            seen.add(key)
            blk = self.f.blocks[bid]
            done = False
            for e in blk.elems[i:]:
                steps += 1
                if steps > self.limit:
                    raise Budget()
                if self.stop(e):
                    out.append(("stop", e, env))
                    done = True
                    break
                if self.watch is not None:
                    self.watch(e, env)
                if e.cls == "ReturnStmt":
                    out.append(("ret", ev(norm(e.kid(0)), env) if e.kids else None, env))
                    done = True
                    break
                self._exec(e, env)
            if done or blk.noreturn:
                continue
            succs = blk.succs
            if blk.cond is None or len(succs) < 2:
                for s in succs:
                    if s is not None:
                        work.append((s, 0, dict(env)))
                continue
            kinds = edge_kinds(blk)
            v = ev(norm(blk.cond), env)
            if v is not None and not isinstance(v, (int, float)):
                try:
                    v = int(bool(v))
                except (Undecided, TypeError):
                    v = None
            if kinds and kinds[0][1] in (True, False):
                if v is None:
                    pick = self.choose(blk.cond, env)
                    v = None if pick is None else int(pick)
                for si, s in enumerate(succs):
                    if s is None:
                        continue
                    truth = kinds[si][1]
                    if v is None or bool(v) == truth:
                        work.append((s, 0, dict(env)))
            else:
                # switch
                took = False
                for si, s in enumerate(succs):
                    if s is None:
                        continue
                    k = kinds[si][1]
                    if not isinstance(k, tuple):
                        continue
                    if v is None:
                        work.append((s, 0, dict(env)))
                    elif k[0] == "case" and v in self.f.blocks[s].case_values():
                        work.append((s, 0, dict(env)))
                        took = True
                if v is not None and not took:
                    for si, s in enumerate(succs):
                        k = kinds[si][1]
                        if s is not None and isinstance(k, tuple) and k[0] == "default":
                            work.append((s, 0, dict(env)))
        return out
