"""E4f -- evaluation of a function's control-flow graph over known values (a finite-domain abstract interpreter).

A handful of terms (locals, one dereferenced cursor) carry concrete integer values, everything else is unknown.  Elements are
executed in CFG order; a branch whose condition evaluates is followed on that edge only, a branch on an unknown condition is
followed both ways unless the caller's policy picks an edge.  A run ends at a stop element chosen by the caller or at a
return statement.  Nothing of the analysed program is executed: this walks the graph clang built and folds the constant
sub-expressions the way the C abstract machine would (integer arithmetic, with wrap-around at assignment to an unsigned
object of known width).

Used to extract the transition relation of a hand-written state machine (one run per state and input symbol) so that the
machine can be compared with the grammar it is documented to accept.
"""
from .ir import norm, subterms
from .dataflow import edge_kinds


class Budget(Exception):
    pass


CMP = {"==": lambda a, b: a == b, "!=": lambda a, b: a != b, "<": lambda a, b: a < b, "<=": lambda a, b: a <= b,
       ">": lambda a, b: a > b, ">=": lambda a, b: a >= b}


def _cdiv(a, b):
    q = abs(a) // abs(b)
    return q if (a >= 0) == (b >= 0) else -q


ARITH = {"+": lambda a, b: a + b, "-": lambda a, b: a - b, "*": lambda a, b: a * b, "&": lambda a, b: a & b, "|": lambda a, b: a | b,
         "^": lambda a, b: a ^ b, "<<": lambda a, b: a << b if 0 <= b < 64 else None, ">>": lambda a, b: a >> b if 0 <= b < 64 else None,
         "/": lambda a, b: (None if b == 0 else (a / b if isinstance(a, float) or isinstance(b, float) else _cdiv(a, b))),
         "%": lambda a, b: a - b * _cdiv(a, b) if b != 0 and not isinstance(a, float) and not isinstance(b, float) else None}


def ev(n, env):
    """Value of a norm() term under env ({term: int or None}); None when unknown."""
    if not isinstance(n, tuple) or not n:
        return None
    if n in env:
        return env[n]
    t = n[0]
    if t == "c":
        return n[1] if isinstance(n[1], int) else None
    if t in CMP and len(n) == 3:
        a, b = ev(n[1], env), ev(n[2], env)
        return None if a is None or b is None else int(CMP[t](a, b))
    if t in ARITH and len(n) == 3:
        a, b = ev(n[1], env), ev(n[2], env)
        return None if a is None or b is None else ARITH[t](a, b)
    if t == "&&":
        a = ev(n[1], env)
        if a == 0:
            return 0
        b = ev(n[2], env)
        if b == 0:
            return 0
        return None if a is None or b is None else 1
    if t == "||":
        a = ev(n[1], env)
        if a is not None and a != 0:
            return 1
        b = ev(n[2], env)
        if b is not None and b != 0:
            return 1
        return None if a is None or b is None else 0
    if t == "u!":
        a = ev(n[1], env)
        return None if a is None else int(a == 0)
    if t == "u-":
        a = ev(n[1], env)
        return None if a is None else -a
    if t == "u+":
        return ev(n[1], env)
    if t == "u~":
        a = ev(n[1], env)
        return None if a is None else ~a
    if t == "?:" and len(n) == 4:
        c = ev(n[1], env)
        if c is None:
            a, b = ev(n[2], env), ev(n[3], env)
            return a if a is not None and a == b else None
        return ev(n[2], env) if c else ev(n[3], env)
    if t == ",":
        return ev(n[-1], env)
    if t in ("+=", "-=", "*=", "/=", "%=", "<<=", ">>=", "&=", "|=", "^=", "upre++", "upre--") and len(n) >= 2:
        # executed already as an element of its own: the value of the expression is the object's value now
        return env.get(n[1]) if n[1] in env else None
    if t == "=" and len(n) == 3:
        # the element that performed the assignment has been executed already: the value is the object's
        return env[n[1]] if n[1] in env else ev(n[2], env)
    return None


class Walker:
    """tracked: {term: (signed, bits) or "float"} -- the terms that carry values (others are unknown and stores to them ignored).
    stop(elem) -> True ends a run at that element (before executing it).
    choose(cond_elem, env) -> True / False / None: the edge to take for a condition whose value is unknown (None: both)."""

    def __init__(self, func, tracked, stop, choose=None, limit=20000, watch=None):
        self.f = func
        self.watch = watch      # watch(elem, env): called for every element about to be executed
        self.tracked = tracked
        self.stop = stop
        self.choose = choose or (lambda c, env: None)
        self.limit = limit

    def _store(self, env, tgt, v):
        if tgt in self.tracked:
            if v is not None and self.tracked[tgt] == "float":
                v = float(v)
            elif v is not None:
                if isinstance(v, float):
                    v = int(v)          # conversion to an integer type truncates towards zero
                signed, bits = self.tracked[tgt]
                if not signed:
                    v &= (1 << bits) - 1
                else:
                    v = ((v + (1 << (bits - 1))) & ((1 << bits) - 1)) - (1 << (bits - 1))
            env[tgt] = v
        else:
            # a store through something else may not touch the tracked objects (locals whose address is not taken and the
            # read-only cursor); terms computed through the target would be stale, none is tracked
            pass

    def _exec(self, e, env):
        if e.cls == "DeclStmt":
            for d in e.decls or []:
                if isinstance(d, dict) and d.get("kind") == "local":
                    t = ("v", d["name"], d["id"])
                    if t in self.tracked:
                        self._store(env, t, ev(norm(self.f.elem(d["init"])), env) if d.get("init") else None)
            return
        if e.is_assign:
            tgt = norm(e.kid(0))
            if tgt not in self.tracked:
                return
            r = ev(norm(e.kid(1)), env)
            if e.op == "=":
                self._store(env, tgt, r)
            else:
                op = e.op[:-1]
                cur = env.get(tgt)
                self._store(env, tgt, None if cur is None or r is None or op not in ARITH else ARITH[op](cur, r))
            return
        if e.is_incdec:
            tgt = norm(e.kid(0))
            if tgt in self.tracked:
                cur = env.get(tgt)
                self._store(env, tgt, None if cur is None else cur + (1 if e.op.endswith("++") else -1))
            else:
                # a tracked term computed through the stepped variable (the dereferenced cursor) is no longer known
                for k in list(env):
                    if any(s == tgt for s in subterms(k)):
                        env[k] = None

    def run(self, block, index, env):
        """Outcomes of executing from element `index` of `block`: list of ('stop', elem, env) and ('ret', value, env)."""
        out = []
        work = [(block, index, dict(env))]
        steps = 0
        seen = set()
        while work:
            bid, i, env = work.pop()
            key = (bid, i, tuple(sorted((repr(k), v) for k, v in env.items())))
            if key in seen:
                continue
            seen.add(key)
            blk = self.f.blocks[bid]
            done = False
            for e in blk.elems[i:]:
                steps += 1
                if steps > self.limit:
                    raise Budget()
                if self.stop(e):
                    out.append(("stop", e, env))
                    done = True
                    break
                if self.watch is not None:
                    self.watch(e, env)
                if e.cls == "ReturnStmt":
                    out.append(("ret", ev(norm(e.kid(0)), env) if e.kids else None, env))
                    done = True
                    break
                self._exec(e, env)
            if done or blk.noreturn:
                continue
            succs = blk.succs
            if blk.cond is None or len(succs) < 2:
                for s in succs:
                    if s is not None:
                        work.append((s, 0, dict(env)))
                continue
            kinds = edge_kinds(blk)
            v = ev(norm(blk.cond), env)
            if kinds and kinds[0][1] in (True, False):
                if v is None:
                    pick = self.choose(blk.cond, env)
                    v = None if pick is None else int(pick)
                for si, s in enumerate(succs):
                    if s is None:
                        continue
                    truth = kinds[si][1]
                    if v is None or bool(v) == truth:
                        work.append((s, 0, dict(env)))
            else:
                # switch
                took = False
                for si, s in enumerate(succs):
                    if s is None:
                        continue
                    k = kinds[si][1]
                    if not isinstance(k, tuple):
                        continue
                    if v is None:
                        work.append((s, 0, dict(env)))
                    elif k[0] == "case" and v in self.f.blocks[s].case_values():
                        work.append((s, 0, dict(env)))
                        took = True
                if v is not None and not took:
                    for si, s in enumerate(succs):
                        k = kinds[si][1]
                        if s is not None and isinstance(k, tuple) and k[0] == "default":
                            work.append((s, 0, dict(env)))
        return out
