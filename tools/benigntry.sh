#!/bin/sh
# usage: tools/benigntry.sh <patch.diff> [<ID> ...]   (default: all 20 properties)
# Applies a behaviour-preserving patch to a scratch copy of /repo (nothing in /repo is touched), runs the named quick checks
# against the copy in parallel and prints every check that does not stay quiet (exit 0), with its first report lines.
# Exit status: 0 when all stayed quiet, 1 otherwise.
P="$1"; shift
[ $# -eq 0 ] && set -- C01 C02 C03 C04 C05 C06 C07 C08 C09 C10 C11 C12 C13 C14 C15 C16 C17 C18 C19 C20
S=$(mktemp -d /tmp/lcp_btry_XXXXXX)
rsync -a --exclude .git --exclude '*.o' --exclude '*.a' --exclude tests-output /repo/ "$S/"
( cd "$S" && patch -p1 -s -f --no-backup-if-mismatch -i "$P" ) || { echo "patch does not apply"; rm -rf "$S"; exit 3; }
cd /verif
for id in "$@"; do echo "$id"; done | xargs -P "${JOBS:-6}" -I{} sh -c \
	'VERIF_EVIDENCE_DIR="'"$S"'/_ev_{}" python3 sa/check.py {} --tier quick --repo "'"$S"'" > "'"$S"'/out_{}.txt" 2>&1; echo $? > "'"$S"'/rc_{}.txt"'
bad=0
for id in "$@"; do
	rc=$(cat "$S/rc_$id.txt" 2>/dev/null || echo 99)
	if [ "$rc" != "0" ]; then
		bad=1
		echo "[$id] exit=$rc"
		grep -v "^VIOLATION\|^KNOWN-FINDING\|obligations" "$S/out_$id.txt" | cut -c1-360 | tail -6
	fi
done
rm -rf "$S"
[ $bad -eq 0 ] && echo "quiet: $*"
exit $bad
