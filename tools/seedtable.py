#!/usr/bin/env python3
"""Print the markdown table of kept seeded changes (DESIGN.md section 9.3) from seeded/*/meta.json and detected.txt."""
import json, glob, os, re
V = os.path.dirname(os.path.dirname(os.path.abspath(__file__)))
print("| seed | change (sub-agent's summary, shortened) | rules that report it (quick tier) | first run |")
print("|---|---|---|---|")
tot = first = other = missed = 0
for d in sorted(glob.glob(os.path.join(V, "seeded", "*-*"))):
    m = json.load(open(os.path.join(d, "meta.json")))
    s = re.sub(r"\s+", " ", m.get("summary", "")).strip()
    if len(s) > 260:
        s = s[:257].rsplit(" ", 1)[0] + " ..."
    rules = []
    dt = os.path.join(d, "detected.txt")
    if os.path.exists(dt):
        for ln in open(dt).read().splitlines()[1:]:
            r = ln.split()[0]
            if r not in rules:
                rules.append(r)
    v = m.get("verified_here", "")
    note = v.split(" ; ", 1)[1] if " ; " in v else ""
    tot += 1
    if note.startswith("missed") or note.startswith("at first"):
        missed += 1; fo = "missed; " + note.split(":", 1)[-1].strip() if ":" in note else note
    elif note.startswith("first caught only"):
        other += 1; fo = note
    else:
        first += 1; fo = "caught" + ((" (" + note + ")") if note else "")
    others = [x for x in m.get("detected_by", []) if x != m.get("property")]
    print("| %s | %s | %s%s | %s |" % (os.path.basename(d), s.replace("|", "/"), ", ".join(rules), (" (also reported by " + ", ".join(others) + ")") if others else "", fo.replace("|", "/")))
print()
print("%d seeded changes: %d reported by the property's own check on the first run, %d at first reported only by another property's check, %d missed at first; after the strengthening described, all %d are reported by their own property's check." % (tot, first, other, missed, tot))
