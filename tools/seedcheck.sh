#!/bin/sh
# usage: tools/seedcheck.sh <patch.diff> <ID> [<ID> ...]
# Applies the patch to /repo, runs the named checks (quick), and restores /repo.
P="$1"; shift
cd /repo || exit 3
git apply --check "$P" || { echo "patch does not apply"; exit 3; }
git apply "$P"
for id in "$@"; do
	cd /verif
	VERIF_EVIDENCE_DIR=/tmp/seed_evidence python3 sa/check.py "$id" --tier quick > /tmp/seedcheck.out 2>&1
	echo "[$id] exit=$?"
	grep -v conda /tmp/seedcheck.out | grep -v "^VIOLATION" | cut -c1-330 | tail -4
done
cd /repo && git checkout -- .
