#!/bin/sh
# Full self-validation: every check on the current tree, then the mutation, benign and seeded corpora (scratch copies).
# usage: tools/regress.sh [outdir]   (prints a summary; details in outdir)
OUT=${1:-/tmp/verif_regress}
rm -rf "$OUT"; mkdir -p "$OUT"
cd "$(dirname "$0")/.."
IDS="C01 C02 C03 C04 C05 C06 C07 C08 C09 C10 C11 C12 C13 C14 C15 C16 C17 C18 C19 C20"
for id in $IDS; do echo $id; done | xargs -P 6 -I{} sh -c "VERIF_EVIDENCE_DIR=$OUT/ev python3 sa/check.py {} --tier quick > $OUT/{}.clean 2>&1; echo rc=\$? >> $OUT/{}.clean"
for id in $IDS; do echo $id; done | xargs -P 8 -I{} sh -c "[ -f mutants/{}.json ] && python3 tools/mutants.py {} > $OUT/{}.mut 2>&1; [ -f benign/{}.json ] && VERIF_CORPUS=benign python3 tools/mutants.py {} > $OUT/{}.ben 2>&1; python3 tools/seeds.py {} -j 2 > $OUT/{}.seed 2>&1; true"
echo "== clean tree"; grep -L "rc=0" $OUT/*.clean
echo "== mutants"; cat $OUT/*.mut | grep -c "^caught"; grep -h "MISSED\|STALE" $OUT/*.mut | cut -c1-300
echo "== benign"; cat $OUT/*.ben | grep -c "^quiet"; grep -h "FALSE-ALARM\|STALE" $OUT/*.ben | cut -c1-300
echo "== seeded"; cat $OUT/*.seed | grep -c "^caught"; grep -h "MISSED\|skipped " $OUT/*.seed | cut -c1-300
echo "== rule sets"; python3 tools/rulesets.py | tail -3
echo "== independently written refactorings (benignseeds: regressions fail, open false alarms are listed in DESIGN 9.5a)"; python3 tools/benignseeds.py -j 3 | tail -1
