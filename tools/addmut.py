#!/usr/bin/env python3
"""usage: tools/addmut.py <ID> <name> <file>:<line> '<new text of that line>' <expect rule | clean>
Appends a one-line mutation to mutants/<ID>.json (or, with `clean`, to benign/<ID>.json).  `old` is the line as it stands in
/repo, extended by following lines until the text is unique in the file."""
import json, os, sys
V = os.path.dirname(os.path.dirname(os.path.abspath(__file__)))
pid, name, loc, new, rule = sys.argv[1:6]
path, ln = loc.rsplit(":", 1)
ln = int(ln) - 1
L = open(os.path.join("/repo", path)).read().split("\n")
text = "\n".join(L)
k = 1
while text.count("\n".join(L[ln:ln + k]) + "\n") != 1 and k < 8:
    k += 1
old = "\n".join(L[ln:ln + k]) + "\n"
b = 0
if text.count(old) != 1:
    k = 1
    while text.count("\n".join(L[ln - b:ln + k]) + "\n") != 1 and b < 12:
        b += 1
    old = "\n".join(L[ln - b:ln + k]) + "\n"
assert text.count(old) == 1, "cannot make the pattern unique"
indent = L[ln][:len(L[ln]) - len(L[ln].lstrip())]
newtext = "\n".join(L[ln - b:ln] + [indent + new if new else ""] + L[ln + 1:ln + k]) + "\n"
corpus = "benign" if rule == "clean" else "mutants"
fn = os.path.join(V, corpus, pid + ".json")
m = json.load(open(fn))
if any(x["name"] == name for x in m):
    print("exists:", name); sys.exit(0)
ent = {"name": name, "file": path, "old": old, "new": newtext}
if rule == "clean":
    ent["expect"] = "clean"
else:
    ent["expect_rule"] = rule
m.append(ent)
json.dump(m, open(fn, "w"), indent=1)
print("added", corpus, pid, name)
