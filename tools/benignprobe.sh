#!/bin/sh
# usage: tools/benignprobe.sh <name> <perl -pi expression> [<egrep pattern of files to leave alone>]
# Applies a behaviour-preserving textual transformation to every library source of a scratch copy of /repo, makes sure
# the library still builds, and runs every quick check against the copy.  Any exit 1 is a false alarm to investigate;
# exit 2 (anchor renamed) is listed separately.
NAME="$1"; EXPR="$2"; SKIP="${3:-^$}"
S=$(mktemp -d /tmp/lcp_probe_XXXXXX)
rsync -a --exclude .git --exclude '*.o' --exclude '*.a' --exclude tests-output /repo/ "$S/"
cd "$S" || exit 3
FILES=$(find alg aws crypto datastruct events http netbuf network util -name '*.[ch]' 2>/dev/null | grep -Ev "$SKIP")
perl -0pi -e "$EXPR" $FILES
CH=$(diff -rq /repo "$S" 2>/dev/null | grep -c "^Files")
( cd "$S/liball" && make -j16 > "$S/build.log" 2>&1 ) || { echo "[$NAME] does not build: $(grep -m3 error "$S/build.log")"; rm -rf "$S"; exit 3; }
echo "[$NAME] $CH files changed, builds"
cd /verif
for id in C01 C02 C03 C04 C05 C06 C07 C08 C09 C10 C11 C12 C13 C14 C15 C16 C17 C18 C19 C20; do echo $id; done | \
  xargs -P 8 -I{} sh -c "VERIF_EVIDENCE_DIR=$S/_ev_{} python3 sa/check.py {} --tier quick --repo $S > $S/{}.out 2>&1; echo \$? > $S/{}.rc"
for id in C01 C02 C03 C04 C05 C06 C07 C08 C09 C10 C11 C12 C13 C14 C15 C16 C17 C18 C19 C20; do
  rc=$(cat $S/$id.rc)
  if [ "$rc" != "0" ]; then echo "  $id rc=$rc"; grep -v "^VIOLATION" $S/$id.out | grep "^  \|ANALYSIS" | head -4 | cut -c1-260; fi
done
rm -rf "$S"
