#!/usr/bin/env python3
"""Reference table for the BORROW rule: for every function of the library that stores one of its pointer parameters into an
object it has just obtained from an allocator (a request, a cookie, a container), the names of those parameters -- the pointers
the interface lets the object keep beyond the call.  Generated from the pinned tree (`python3 tools/gen_borrows.py > sa/borrows.json`);
the rule reports a pointer parameter kept by such a function that is not in its list."""
import json, os, sys
sys.path.insert(0, os.path.dirname(os.path.dirname(os.path.abspath(__file__))))
from sa import ir, cdb
from sa.rules.c06 import kept_params

prog = ir.Program(None, cdb.HOST)
out = {}
for f in prog.all_funcs():
    k = kept_params(f)
    if k is not None:
        out.setdefault(f.file, {})[f.name] = sorted(k)
json.dump(out, sys.stdout, indent=1, sort_keys=True)
