#!/bin/sh
# usage: tools/seedtry.sh <patch.diff> <ID> [<ID> ...]
# Like seedcheck.sh, but on a scratch copy of /repo (nothing in /repo is touched): applies the patch, runs the named quick
# checks against the copy, removes the copy.
P="$1"; shift
S=$(mktemp -d /tmp/lcp_try_XXXXXX)
rsync -a --exclude .git --exclude '*.o' --exclude '*.a' --exclude tests-output /repo/ "$S/"
( cd "$S" && patch -p1 -s -f --no-backup-if-mismatch -i "$P" ) || { echo "patch does not apply"; rm -rf "$S"; exit 3; }
cd /verif
for id in "$@"; do
	VERIF_EVIDENCE_DIR="$S/_ev" python3 sa/check.py "$id" --tier ${TIER:-quick} --repo "$S" > "$S/out.txt" 2>&1
	echo "[$id] exit=$?"
	grep -v "^VIOLATION\|^KNOWN-FINDING\|obligations" "$S/out.txt" | cut -c1-330 | tail -5
done
rm -rf "$S"
