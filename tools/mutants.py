#!/usr/bin/env python3
"""Checker self-validation: apply each recorded one-instance mutation to a
scratch copy of /repo (never to /repo itself), run the property's check on
the copy and require exit 1 naming the expected rule.

usage: tools/mutants.py <ID> [name-substring]     (reads mutants/<ID>.json)

mutants/<ID>.json: [{"name", "file", "old", "new", "expect_rule", "count"?} | {"name", "edits": [{file, old, new}], "expect_rule"}]
`old` must occur exactly once in the file (or `count` times); the mutant must
still parse (the extractor refuses a unit with errors => reported as broken).
Exit 0 when every mutant is detected, 2 otherwise.
"""
import json, os, subprocess, sys, tempfile, shutil

VERIF = os.path.dirname(os.path.dirname(os.path.abspath(__file__)))
REPO = os.environ.get("VERIF_REPO", "/repo")


def main():
    pid = sys.argv[1]
    filt = sys.argv[2] if len(sys.argv) > 2 else None
    corpus = os.environ.get("VERIF_CORPUS", "mutants")
    muts = json.load(open(os.path.join(VERIF, corpus, pid + ".json")))
    scratch = tempfile.mkdtemp(prefix="lcp_mut_")
    try:
        subprocess.check_call(["rsync", "-a", "--exclude", ".git", "--exclude", "*.o", "--exclude", "*.a",
                               "--exclude", "tests-output", REPO + "/", scratch + "/"])
        missed = 0
        ran = 0
        skipped = 0
        for m in muts:
            if filt and filt not in m["name"]:
                continue
            edits = m.get("edits") or [m]
            saved = {}
            stale = False
            for ed in edits:
                p = os.path.join(scratch, ed["file"])
                cur = open(p).read()
                saved.setdefault(p, cur)
                cnt = cur.count(ed["old"])
                if cnt != ed.get("count", 1):
                    print("MUTANT-STALE %s: pattern occurs %d times in %s" % (m["name"], cnt, ed["file"]))
                    stale = True
                    break
                open(p, "w").write(cur.replace(ed["old"], ed["new"]))
            if stale:
                # the corpus is pinned to the tree it was written against: an entry whose pattern is gone says
                # nothing about the checker, so it is skipped (and counted), not reported as missed
                for p, cur in saved.items():
                    open(p, "w").write(cur)
                skipped += 1
                continue
            env = dict(os.environ, VERIF_EVIDENCE_DIR=os.path.join(scratch, "_evidence"))
            r = subprocess.run([sys.executable, os.path.join(VERIF, "sa", "check.py"), pid, "--tier", "quick", "--repo", scratch],
                               capture_output=True, text=True, cwd=VERIF, env=env)
            for p, cur in saved.items():
                open(p, "w").write(cur)
            ran += 1
            out = r.stdout
            if m.get("expect") == "clean":
                # behaviour-preserving edit: must not alarm (exit 0; exit 2 = anchor renamed is tolerated when allowed)
                hit = r.returncode == 0 or (r.returncode == 2 and m.get("allow_broken"))
                print("%s %-40s rc=%d %s" % ("quiet " if hit else "FALSE-ALARM", m["name"], r.returncode,
                                             "" if hit else out.strip().splitlines()[-3:]))
            else:
                hit = r.returncode == 1 and "VIOLATION property=%s" % pid in out and (m.get("expect_rule", "") in out)
                print("%s %-40s rc=%d %s" % ("caught" if hit else "MISSED", m["name"], r.returncode,
                                             "" if hit else out.strip().splitlines()[-3:]))
            if not hit:
                missed += 1
        print("%d mutants run, %d missed, %d skipped" % (ran, missed, skipped))
        return 2 if missed else 0
    finally:
        shutil.rmtree(scratch, ignore_errors=True)


if __name__ == "__main__":
    sys.exit(main())
