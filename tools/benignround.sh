#!/bin/sh
# usage: tools/benignround.sh <dir glob prefix, e.g. /tmp/wb1_> [ID ...]
# Runs all 20 quick checks (tools/benigntry.sh) on every <prefix><ID>/benign_<n>/patch.diff and prints one line per patch:
# quiet, or the checks and rules that reported.
pre="$1"; shift
[ $# -eq 0 ] && set -- C01 C02 C03 C04 C05 C06 C07 C08 C09 C10 C11 C12 C13 C14 C15 C16 C17 C18 C19 C20
for id in "$@"; do for n in 1 2 3; do
	p="$pre$id/benign_$n/patch.diff"; [ -f "$p" ] || continue
	out=$(JOBS=${JOBS:-8} /verif/tools/benigntry.sh "$p" 2>&1)
	if echo "$out" | grep -q "^quiet"; then echo "$id-b$n quiet"; else
		echo "$id-b$n $(echo "$out" | grep '^\[' | tr '\n' ' ') :: $(echo "$out" | grep -v '^\[' | awk '{print $1}' | sort | uniq -c | awk '{printf "%s(%s) ", $2, $1}')"
	fi
done; done
