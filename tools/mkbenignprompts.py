#!/usr/bin/env python3
"""usage: tools/mkbenignprompts.py <round tag> <out dir>
Writes one prompt per property for a round of independently written BEHAVIOUR-PRESERVING refactorings of the anchored code (the
counterpart of the seeded breaking changes: every quick check must stay quiet on each).  A prompt contains the property's text
from properties.jsonl and the worktree path, nothing else from /verif."""
import json, os, sys
V = os.path.dirname(os.path.dirname(os.path.abspath(__file__)))
tag, out = sys.argv[1], sys.argv[2]
os.makedirs(out, exist_ok=True)
for line in open(os.path.join(V, "properties.jsonl")):
    p = json.loads(line)
    pid = p["id"]
    wt = "/tmp/wb%s_%s" % (tag, pid)
    q = (p.get("quantifier") or {}).get("text", "")
    t = """You are helping to evaluate a verification effort for the C library Tarsnap/libcperciva (Colin Percival's shared C99/POSIX utility library). You have your own scratch git worktree of the library at %(wt)s (work ONLY there; never touch /repo or /verif; do not read anything under /verif). The library builds with `make` from the worktree root (the build configuration files cpusupport-config.h, apisupport-config.h, cflags-filter.sh, posix-flags.sh are already present in the worktree; `make all` builds liball/liball.a and the tests; `make test` runs the whole suite in ~6 minutes; individual tests live under tests/ and are run by tests/test_libcperciva.sh).

Here is one semantic property the library satisfies today:

  id: %(id)s
  title: %(title)s
  statement: %(statement)s
  quantified over: %(q)s
  code it is anchored in: %(files)s

YOUR TASK: write 3 DIFFERENT realistic maintenance changes to the anchored code that a careful maintainer could commit and that KEEP this property (and the library's behaviour) exactly as it is: behaviour-preserving refactorings, not bug fixes and not feature changes. They will be used to find out whether a set of property checkers raises false alarms on correct code, so they should be the kind of edit that really happens and that changes the SHAPE of the code substantially while leaving what it computes and every side effect, their order as far as it is observable, every error path and every resource's lifetime unchanged. Make each one a real piece of work (10-60 changed lines), and make the three differ in kind. Examples of kinds: extracting a static helper function (or inlining one); turning a goto-cleanup ladder into early returns or nested ifs (or the reverse) with identical clean-up on every path; introducing well-named local variables for repeated sub-expressions, or removing temporaries; changing a loop's form (for <-> while, counting down instead of up where order is unobservable, pointer-walking instead of indexing); re-expressing a condition (De Morgan, swapped operands, a switch for an if-chain, a table for a switch); reordering statements that are provably independent; replacing an idiom by an equivalent one (memset+assignments <-> compound initialisation of every member, x ? a : b <-> if/else, sizeof(type) <-> sizeof(*ptr), strlen+memcpy <-> the same through a helper); splitting a long function in two; merging duplicated code into a shared static function; renaming locals, labels and static functions; converting a macro into a static inline function or back. Stay inside the anchored files (plus their private headers); do not change public function signatures, struct layouts visible to other files, or anything the existing tests depend on.

Be strict with yourself about equivalence: for each change, argue (in meta.json) why no input, schedule, fault (allocation failure, short read, EINTR ...) or build configuration can tell the old code from the new one with respect to the property above, including error paths, what is freed when, what is zeroed when, and integer widths/signedness of every intermediate. If you are not sure an edit is equivalent, do not use it. Do not "improve" anything.

For EACH change i = 1..3:
 1. make the change in the worktree, build with `make all` from the root and confirm it compiles without new warnings;
 2. run the tests relevant to the touched files (tests/test_libcperciva.sh runs them by number) and, where it is cheap, a small differential check of your own (old object file vs new on a few hundred inputs) to make sure behaviour is unchanged;
 3. save the change as a unified diff relative to HEAD in %(wt)s/benign_i/patch.diff (`git diff > benign_i/patch.diff`, excluding the benign_* directories), then REVERT the source change (`git checkout -- .` ; keep the benign_i directory) before starting the next one;
 4. write %(wt)s/benign_i/meta.json with keys: property ("%(id)s"), summary (one or two sentences: what was restructured), kind (e.g. "extract-helper", "goto-to-early-return", "loop-form", ...), why_equivalent (the argument), tests_run (which tests you ran and their result).
At the very end run the full `make test` once with all three patches applied together (if they touch overlapping lines and cannot be combined, run it per patch) and record the result in each meta.json under suite_status.

Finish by printing a short report listing, for each change, the files and functions touched and its kind. Do NOT use `git stash` (it is shared between all worktrees of this repository and other people are working in sibling worktrees): to revert use `git checkout -- .`, to save a change `git diff > file`, to re-apply it `git apply file`.
""" % {"wt": wt, "id": pid, "title": p.get("title", ""), "statement": p.get("statement", ""), "q": q, "files": ", ".join(p["anchors"]["files"])}
    open(os.path.join(out, pid + ".txt"), "w").write(t)
    print(pid, len(t))
