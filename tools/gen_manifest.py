#!/usr/bin/env python3
"""Regenerate MANIFEST.json from sa/claims.py and properties.jsonl."""
import json, os, sys
V = os.path.dirname(os.path.dirname(os.path.abspath(__file__)))
sys.path.insert(0, V)
from sa.claims import CLAIMS, NOT_APPLICABLE, PENDING_REASON
props = [json.loads(l)["id"] for l in open(os.path.join(V, "properties.jsonl"))]
checks = []
for p in props:
    if p not in CLAIMS:
        continue
    c = CLAIMS[p]
    checks.append({
        "property_id": p,
        "quick_cmd": "python3 sa/check.py %s --tier quick" % p,
        "thorough_cmd": "python3 sa/check.py %s --tier thorough" % p,
        "evidence_file": "evidence/%s.json" % p,
        "replay_cmd_template": "python3 sa/check.py --replay {path}",
        "engine": "cfgx+sa",
        "level_claimed": {"category": "other", "text": c["text"], "design_ref": c.get("design_ref", "DESIGN.md section 4")},
        "level_note": c["note"],
        "technique": c["technique"],
    })
na = []
for p in props:
    if p in CLAIMS:
        continue
    na.append({"property_id": p, "reason": NOT_APPLICABLE.get(p, PENDING_REASON)})
m = {
    "version": 1,
    "setup_cmd": "sh tools/build.sh",
    "hooks": {"guard": "LIBCPERCIVA_VERIF",
              "enable": "no hooks are needed: the checks read /repo's sources through clang; the guard name is reserved and unused",
              "baseline_off_cmd": "cd /repo && make all && make test",
              "source_commits": [], "add_only": True},
    "engines": [{"name": "cfgx+sa", "path": "tools/cfgx.cc, sa/",
                 "serves_properties": [c["property_id"] for c in checks],
                 "kind_free_text": "clang-14 LibTooling CFG/fact extractor (tools/cfgx.cc) + repository-specific dataflow/typestate rules in Python (sa/rules); static analysis only"}],
    "checks": checks,
    "not_applicable": na,
    "notes": "Static analysis only. exit 0 clean / exit 1 + VIOLATION line / exit 2 analysis broken (nothing claimed). Known findings: known_findings.json.",
}
json.dump(m, open(os.path.join(V, "MANIFEST.json"), "w"), indent=1)
print("MANIFEST.json: %d checks, %d not_applicable" % (len(checks), len(na)))
