#!/usr/bin/env python3
"""Reference tables of sa/common.py, generated from the pinned tree: `python3 tools/gen_refs.py` writes sa/retvals.json,
sa/ctors.json and sa/dtors.json.  (Run only against the reference tree; the checks never write these files.)"""
import json, os, sys
sys.path.insert(0, os.path.dirname(os.path.dirname(os.path.abspath(__file__))))
from sa import ir, cdb, own, common

prog = ir.Program(None, cdb.HOST)
acq = own.discover_acquirers(prog)
rel = set(x for v in acq.values() for x in v) | {"free"}
ret, ct, dt, pm, fp = {}, {}, {}, {}, {}
seen = set()
for f in prog.all_funcs(own_only=False) if "own_only" in ir.Program.all_funcs.__code__.co_varnames else prog.all_funcs():
    k = (f.file, f.name)
    if k in seen:
        continue
    seen.add(k)
    rc = common.ret_classes(f)
    if rc and any(c in ("0", "+", "-") for c in rc):
        ret.setdefault(f.file, {})[f.name] = rc
    if f.params:
        pm.setdefault(f.file, {})[f.name] = {"all": [p["name"] for p in f.params], "used": common.used_params(f)}
    sp = common.spurious_failures(f)
    if sp is not None and not sp:
        fp.setdefault(f.file, []).append(f.name)
    ci = common.ctor_info(f)
    if ci is not None:
        ct.setdefault(f.file, {})[f.name] = {"record": ci[1], "stored": ci[2]}
    eo = common.escaped_objects(f)
    if eo:
        ct.setdefault(f.file, {}).setdefault(f.name, {})["escaped"] = eo
    if f.name.endswith(("_free", "_done", "_cancel", "_freelist")) or f.name in ("http_request_cancel",):
        di = common.dtor_info(f, rel)
        if di is not None and di[1]:
            dt.setdefault(f.file, {})[f.name] = di[1]
V = os.path.dirname(os.path.dirname(os.path.abspath(__file__)))
for name, d in (("retvals.json", ret), ("ctors.json", ct), ("dtors.json", dt), ("params.json", pm), ("failpaths.json", {k: sorted(v) for k, v in fp.items()})):
    json.dump(d, open(os.path.join(V, "sa", name), "w"), indent=1, sort_keys=True)
    print(name, sum(len(v) for v in d.values()))
