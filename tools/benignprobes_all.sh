#!/bin/sh
# The whole-library behaviour-preserving rewrites (each on its own scratch copy; see tools/benignprobe.sh): every quick check
# must stay quiet (exit 0) on each.  usage: tools/benignprobes_all.sh  (about 1 minute per probe)
cd "$(dirname "$0")/.."
tools/benignprobe.sh memmove 's/\bmemcpy\(/memmove(/g'
tools/benignprobe.sh lt-as-le 's/ < (\d+)\)/" <= ".($1-1).")"/ge'
# (not in util/parsenum.h: there `> 0` is applied to 1/2 computed in the target's type, and 0.5 > 0 is not 0.5 >= 1 -- the
# checks rightly report that rewrite as breaking the float dispatch)
tools/benignprobe.sh gt-as-ge 's/ > (\d+)\)/" >= ".($1+1).")"/ge' 'util/parsenum\.h'
tools/benignprobe.sh le-as-lt 's/ <= (\d+)\)/" < ".($1+1).")"/ge'
tools/benignprobe.sh ge-as-gt 's/ >= (\d+)\)/" > ".($1-1).")"/ge'
tools/benignprobe.sh eqnull-plain 's/\(([A-Za-z_]\w*(?:->\w+)*) == NULL\)/(!$1)/g'
tools/benignprobe.sh nenull-plain 's/\(([A-Za-z_]\w*(?:->\w+)*) != NULL\)/($1)/g'
tools/benignprobe.sh incr-spelled 's/^(\t+)([A-Za-z_]\w*)\+\+;$/$1$2 += 1;/mg'
tools/benignprobe.sh incr-longhand 's/^(\t+)([A-Za-z_]\w*) \+= (\w+);$/$1$2 = $2 + $3;/mg'
tools/benignprobe.sh mul-as-shift 's/ \* 2\b/ << 1/g'
tools/benignprobe.sh ptr-plus-as-index 's/&([A-Za-z_]\w*(?:->\w+)*)\[([^\]\[]+)\]/($1 + ($2))/g'
tools/benignprobe.sh return-unparenthesised 's/return \((-?\w+)\);/return $1;/g'
