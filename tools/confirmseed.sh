#!/bin/sh
# usage: tools/confirmseed.sh <worktree> <seed dir name>
# Confirms in the scratch worktree that the demonstration fails with the change and passes without it.
WT="$1"; S="$2"
cd "$WT" || exit 3
git checkout -q -- . 2>/dev/null
git apply "$S/patch.diff" || { echo "apply failed"; exit 3; }
make all > /dev/null 2>&1
sh "$S/run.sh" > "$WT/.confirm_with.log" 2>&1; A=$?
git checkout -q -- .
make all > /dev/null 2>&1
sh "$S/run.sh" > "$WT/.confirm_without.log" 2>&1; B=$?
echo "$WT/$S: with change exit=$A ; without change exit=$B"
[ "$A" -ne 0 ] && [ "$B" -eq 0 ] && echo CONFIRMED || { echo NOT-CONFIRMED; tail -3 $WT/.confirm_with.log; tail -3 $WT/.confirm_without.log; }
