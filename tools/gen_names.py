#!/usr/bin/env python3
"""Record, for every function of the pinned tree, the declaration-ordered list of (kind, type, name) of its parameters
and locals (sa/names.json).  ir.py uses it to give a variable that was merely renamed its pinned name back, so that rules
which identify a local by name keep working across a rename (same sequence of kinds and types, different names)."""
import json, os, sys
sys.path.insert(0, os.path.dirname(os.path.dirname(os.path.abspath(__file__))))
os.environ["VERIF_NO_RENAME"] = "1"
from sa import ir, cdb
prog = ir.Program(None, cdb.HOST)
out = {}
for up, u in sorted(prog.units.items()):
    for f in u.funcs:
        sig = ir.decl_signature(f)
        if sig:
            out.setdefault(f.file or up, {})[f.symbol] = sig
json.dump(out, open(os.path.join(cdb.VERIF, "sa", "names.json"), "w"), indent=0, sort_keys=True)
print(sum(len(v) for v in out.values()), "functions")
