// cfgx — fact extractor for the static checks in /verif/sa.
//
// For one translation unit it writes a JSON document with
//   * every function that has a body outside system headers: its clang::CFG
//     built with setAllAlwaysAdd(), so every sub-expression is a CFG element
//     exactly once, in evaluation order;
//   * per element: statement class, type, operator, referenced declaration,
//     folded integer value, string bytes, child element references, source
//     location, enclosing macro names, source text;
//   * block terminators, ordered successors (true,false | switch cases),
//     case/default/goto labels, noreturn marks;
//   * file-scope and static variables with folded initialisers;
//   * enum constants, record layouts and a table of the types mentioned.
//
// usage: cfgx <source.c> -o <out.json> -- <compiler flags>
//
// Build (tools/build.sh):
//   clang++ $(llvm-config-14 --cxxflags) -fno-rtti cfgx.cc -o cfgx \
//     /usr/lib/llvm-14/lib/libclang-cpp.so.14 /usr/lib/llvm-14/lib/libLLVM-14.so

#include "clang/AST/ASTConsumer.h"
#include "clang/AST/RecordLayout.h"
#include "clang/AST/RecursiveASTVisitor.h"
#include "clang/Analysis/CFG.h"
#include "clang/Frontend/CompilerInstance.h"
#include "clang/Frontend/FrontendAction.h"
#include "clang/Lex/Lexer.h"
#include "clang/Tooling/CommonOptionsParser.h"
#include "clang/Tooling/Tooling.h"
#include "llvm/Support/CommandLine.h"
#include "llvm/Support/JSON.h"
#include "llvm/Support/raw_ostream.h"
#include <map>
#include <set>

using namespace clang;
namespace json = llvm::json;

static llvm::cl::OptionCategory Cat("cfgx");
static llvm::cl::opt<std::string> OutFile("o", llvm::cl::desc("output file"),
    llvm::cl::cat(Cat), llvm::cl::Required);

namespace {

static std::string hexbytes(StringRef s) {
  static const char *h = "0123456789abcdef";
  std::string o;
  for (unsigned char c : s) { o.push_back(h[c >> 4]); o.push_back(h[c & 15]); }
  return o;
}

struct Extractor {
  ASTContext &C;
  SourceManager &SM;
  const LangOptions &LO;
  std::map<const Decl *, unsigned> declIds;
  json::Object types, records, enums;
  json::Array globals, functions;
  std::set<const RecordDecl *> recSeen;

  explicit Extractor(ASTContext &c)
      : C(c), SM(c.getSourceManager()), LO(c.getLangOpts()) {}

  unsigned did(const Decl *D) {
    D = D->getCanonicalDecl();
    auto it = declIds.find(D);
    if (it != declIds.end()) return it->second;
    unsigned n = declIds.size() + 1;
    declIds[D] = n;
    return n;
  }

  std::string fileOf(SourceLocation L) {
    L = SM.getExpansionLoc(L);
    StringRef f = SM.getFilename(L);
    std::string s = f.str();
    while (s.rfind("./", 0) == 0) s = s.substr(2);
    return s;
  }

  std::string locStr(SourceLocation L) {
    L = SM.getExpansionLoc(L);
    if (L.isInvalid()) return "";
    return fileOf(L) + ":" + std::to_string(SM.getExpansionLineNumber(L)) +
        ":" + std::to_string(SM.getExpansionColumnNumber(L));
  }

  bool inSystem(SourceLocation L) {
    L = SM.getExpansionLoc(L);
    return L.isInvalid() || SM.isInSystemHeader(L);
  }

  json::Array macrosAt(SourceLocation L) {
    json::Array v;
    std::string last;
    int guard = 0;
    while (L.isValid() && L.isMacroID() && guard++ < 24) {
      std::string n = Lexer::getImmediateMacroName(L, SM, LO).str();
      if (!n.empty() && n != last) { v.push_back(n); last = n; }
      L = SM.getImmediateMacroCallerLoc(L);
    }
    return v;
  }

  std::string textOf(SourceRange R, unsigned limit = 160) {
    if (R.isInvalid()) return "";
    CharSourceRange CR = SM.getExpansionRange(R);
    bool inv = false;
    StringRef t = Lexer::getSourceText(CR, SM, LO, &inv);
    if (inv) return "";
    std::string s;
    bool sp = false;
    for (char c : t) {
      if (c == '\n' || c == '\t' || c == ' ' || c == '\\') {
        if (c == '\\') { s.push_back(c); sp = false; continue; }
        if (!sp) s.push_back(' ');
        sp = true;
      } else { s.push_back(c); sp = false; }
      if (s.size() >= limit) { s += "..."; break; }
    }
    return s;
  }

  // ---- types ----------------------------------------------------------
  std::string tyStr(QualType T) {
    std::string s = T.getAsString();
    noteType(T, s);
    return s;
  }

  void noteType(QualType T, const std::string &key) {
    if (types.find(key) != types.end()) return;
    types[key] = nullptr;  // placeholder against recursion
    json::Object o;
    QualType CT = T.getCanonicalType();
    o["canon"] = CT.getAsString();
    if (T.isConstQualified() || CT.isConstQualified()) o["const"] = true;
    if (T.isVolatileQualified() || CT.isVolatileQualified()) o["volatile"] = true;
    const Type *P = CT.getTypePtr();
    if (P->isPlaceholderType() || P->isDependentType()) {
      o["kind"] = "placeholder";
      types[key] = std::move(o);
      return;
    }
    if (!P->isIncompleteType() && !P->isFunctionType() && !P->isVoidType())
      o["size"] = (int64_t)C.getTypeSizeInChars(CT).getQuantity();
    if (P->isPointerType()) {
      o["kind"] = "ptr";
      QualType PT = T->getPointeeType();
      if (PT.isNull()) PT = CT->getPointeeType();
      o["pointee"] = tyStr(PT);
    } else if (const auto *AT = dyn_cast<ConstantArrayType>(P)) {
      o["kind"] = "array";
      o["count"] = (int64_t)AT->getSize().getZExtValue();
      o["elem"] = tyStr(AT->getElementType());
    } else if (P->isArrayType()) {
      o["kind"] = "array";
      o["elem"] = tyStr(cast<ArrayType>(P)->getElementType());
    } else if (const auto *RT = P->getAs<RecordType>()) {
      o["kind"] = RT->getDecl()->isUnion() ? "union" : "struct";
      std::string rn = recordName(RT->getDecl());
      o["record"] = rn;
      noteRecord(RT->getDecl());
    } else if (P->isEnumeralType()) {
      o["kind"] = "enum";
    } else if (P->isBooleanType()) {
      o["kind"] = "int"; o["signed"] = false;
    } else if (P->isIntegerType()) {
      o["kind"] = "int";
      o["signed"] = P->isSignedIntegerType();
    } else if (P->isFloatingType()) {
      o["kind"] = "float";
    } else if (P->isFunctionType()) {
      o["kind"] = "func";
    } else if (P->isVoidType()) {
      o["kind"] = "void";
    } else if (P->isVectorType()) {
      o["kind"] = "vector";
    } else {
      o["kind"] = "other";
    }
    types[key] = std::move(o);
  }

  std::string recordName(const RecordDecl *R) {
    if (R->getIdentifier()) return R->getName().str();
    if (const TypedefNameDecl *TD = R->getTypedefNameForAnonDecl())
      return TD->getName().str();
    return "anon@" + locStr(R->getLocation());
  }

  void noteRecord(const RecordDecl *R) {
    R = R->getDefinition();
    if (!R || !R->isCompleteDefinition() || R->isInvalidDecl()) return;
    if (!recSeen.insert(R).second) return;
    const ASTRecordLayout &L = C.getASTRecordLayout(R);
    json::Object o;
    o["size"] = (int64_t)L.getSize().getQuantity();
    o["loc"] = locStr(R->getLocation());
    o["union"] = R->isUnion();
    json::Array fs;
    unsigned i = 0;
    for (const FieldDecl *F : R->fields()) {
      json::Object f;
      f["name"] = F->getName().str();
      f["ty"] = tyStr(F->getType());
      f["offset"] = (int64_t)(L.getFieldOffset(i++) / 8);
      if (!F->getType()->isIncompleteType())
        f["size"] = (int64_t)C.getTypeSizeInChars(F->getType()).getQuantity();
      if (F->isBitField()) f["bitfield"] = true;
      fs.push_back(std::move(f));
    }
    o["fields"] = std::move(fs);
    records[recordName(R)] = std::move(o);
  }

  // ---- values ---------------------------------------------------------
  static json::Value apint(const llvm::APSInt &V) {
    if (V.isSigned() || V.getActiveBits() <= 63) {
      if (V.getMinSignedBits() <= 64 && (V.isSigned() || V.getActiveBits() <= 63))
        return json::Value((int64_t)(V.isSigned() ? V.getSExtValue()
                                                   : (int64_t)V.getZExtValue()));
    }
    llvm::SmallString<40> s;
    V.toString(s, 10);
    return json::Value(std::string(s.str()));
  }

  bool foldInt(const Expr *E, llvm::APSInt &out) {
    if (!E || E->isValueDependent()) return false;
    if (!E->getType()->isIntegralOrEnumerationType()) return false;
    Expr::EvalResult R;
    if (!E->EvaluateAsInt(R, C)) return false;
    out = R.Val.getInt();
    return true;
  }

  // Flatten an initialiser into a list of integers (nested lists allowed).
  bool flattenInit(const Expr *E, json::Array &out, unsigned &budget) {
    E = E->IgnoreParenImpCasts();
    if (const auto *IL = dyn_cast<InitListExpr>(E)) {
      for (const Expr *Sub : IL->inits())
        if (!flattenInit(Sub, out, budget)) return false;
      // Trailing implicit zeros.
      if (const auto *AT = C.getAsConstantArrayType(IL->getType())) {
        uint64_t n = AT->getSize().getZExtValue();
        if (IL->getNumInits() < n && IL->hasArrayFiller()) {
          QualType ET = AT->getElementType();
          if (ET->isIntegralOrEnumerationType())
            for (uint64_t k = IL->getNumInits(); k < n && budget; k++, budget--)
              out.push_back(0);
        }
      }
      return true;
    }
    if (isa<ImplicitValueInitExpr>(E)) { out.push_back(0); return true; }
    llvm::APSInt V;
    if (!foldInt(E, V) || budget == 0) return false;
    budget--;
    out.push_back(apint(V));
    return true;
  }

  // A structural view of an initialiser whose leaves are not all integers: nested lists of integers, null pointers and address
  // constants (&var[i].field ... as {addr: var, path: [index | field name, ...]}), evaluated by the compiler's constant evaluator.
  json::Value initTree(const Expr *E, unsigned &budget) {
    if (!E || budget == 0) return nullptr;
    budget--;
    const Expr *S = E->IgnoreParenImpCasts();
    if (const auto *IL = dyn_cast<InitListExpr>(S)) {
      json::Array a;
      for (const Expr *Sub : IL->inits()) a.push_back(initTree(Sub, budget));
      json::Object o;
      o["list"] = std::move(a);
      if (const auto *AT = C.getAsConstantArrayType(IL->getType())) o["n"] = (int64_t)AT->getSize().getZExtValue();
      return std::move(o);
    }
    if (isa<ImplicitValueInitExpr>(S)) return json::Object{{"zero", true}};
    Expr::EvalResult R;
    if (E->isValueDependent() || !E->EvaluateAsRValue(R, C, true)) return nullptr;
    const APValue &V = R.Val;
    if (V.isInt()) return json::Object{{"int", apint(V.getInt())}};
    if (V.isLValue()) {
      if (V.isNullPointer() || !V.getLValueBase()) return json::Object{{"int", (int64_t)0}};
      const ValueDecl *B = V.getLValueBase().dyn_cast<const ValueDecl *>();
      if (!B) return nullptr;
      json::Object o;
      o["addr"] = B->getNameAsString();
      json::Array path;
      if (V.hasLValuePath()) {
        QualType T = B->getType();
        for (const APValue::LValuePathEntry &PE : V.getLValuePath()) {
          if (const ArrayType *AT = C.getAsArrayType(T)) {
            path.push_back((int64_t)PE.getAsArrayIndex());
            T = AT->getElementType();
          } else if (const auto *FD = dyn_cast_or_null<FieldDecl>(PE.getAsBaseOrMember().getPointer())) {
            path.push_back(FD->getNameAsString());
            T = FD->getType();
          } else return nullptr;
        }
      }
      o["path"] = std::move(path);
      return std::move(o);
    }
    return nullptr;
  }

  json::Value initOf(const VarDecl *D) {
    const Expr *I = D->getInit();
    if (!I) return nullptr;
    json::Object o;
    const Expr *S = I->IgnoreParenImpCasts();
    if (const auto *SL = dyn_cast<StringLiteral>(S)) {
      o["str"] = hexbytes(SL->getBytes());
      return std::move(o);
    }
    if (const auto *IL = dyn_cast<InitListExpr>(S)) {
      if (IL->getNumInits() == 1)
        if (const auto *SL2 = dyn_cast<StringLiteral>(IL->getInit(0)->IgnoreParenImpCasts())) {
          o["str"] = hexbytes(SL2->getBytes());
          return std::move(o);
        }
      json::Array a;
      unsigned budget = 1 << 16;
      if (flattenInit(IL, a, budget)) { o["ints"] = std::move(a); return std::move(o); }
      unsigned b2 = 1 << 14;
      json::Value t = initTree(IL, b2);
      if (!(t.kind() == json::Value::Null)) { o["tree"] = std::move(t); return std::move(o); }
      return nullptr;
    }
    llvm::APSInt V;
    if (foldInt(S, V)) { o["int"] = apint(V); return std::move(o); }
    if (const auto *DR = dyn_cast<DeclRefExpr>(S)) {
      o["ref"] = DR->getDecl()->getNameAsString();
      return std::move(o);
    }
    if (const auto *UO = dyn_cast<UnaryOperator>(S))
      if (UO->getOpcode() == UO_AddrOf)
        if (const auto *DR = dyn_cast<DeclRefExpr>(UO->getSubExpr()->IgnoreParenImpCasts())) {
          o["ref"] = DR->getDecl()->getNameAsString();
          return std::move(o);
        }
    return nullptr;
  }

  json::Object declObj(const ValueDecl *D) {
    json::Object o;
    o["id"] = (int64_t)did(D);
    o["name"] = D->getNameAsString();
    if (isa<FunctionDecl>(D)) {
      const auto *F = cast<FunctionDecl>(D);
      o["kind"] = "func";
      if (F->isNoReturn()) o["noreturn"] = true;
      if (F->getStorageClass() == SC_Static) o["static"] = true;
      if (unsigned b = F->getBuiltinID()) o["builtin"] = (int64_t)b;
    } else if (isa<ParmVarDecl>(D)) {
      o["kind"] = "param";
    } else if (const auto *V = dyn_cast<VarDecl>(D)) {
      o["kind"] = V->hasGlobalStorage() ? (V->isStaticLocal() ? "staticlocal" : "global") : "local";
    } else if (const auto *F = dyn_cast<FieldDecl>(D)) {
      o["kind"] = "field";
      o["record"] = recordName(F->getParent());
    } else if (isa<EnumConstantDecl>(D)) {
      o["kind"] = "enumconst";
    } else {
      o["kind"] = "other";
    }
    return o;
  }

  // ---- functions ------------------------------------------------------
  using IdMap = std::map<const Stmt *, std::pair<unsigned, unsigned>>;

  json::Value kidRef(const Stmt *S, const IdMap &id) {
    int guard = 0;
    while (S && guard++ < 16) {
      auto it = id.find(S);
      if (it != id.end())
        return json::Array{(int64_t)it->second.first, (int64_t)it->second.second};
      if (const auto *P = dyn_cast<ParenExpr>(S)) { S = P->getSubExpr(); continue; }
      if (const auto *CE = dyn_cast<ConstantExpr>(S)) { S = CE->getSubExpr(); continue; }
      if (const auto *FE = dyn_cast<FullExpr>(S)) { S = FE->getSubExpr(); continue; }
      if (const auto *OV = dyn_cast<OpaqueValueExpr>(S)) { S = OV->getSourceExpr(); continue; }
      break;
    }
    return nullptr;
  }

  json::Object elemObj(const Stmt *st, const IdMap &id) {
    json::Object o;
    o["cls"] = st->getStmtClassName();
    o["loc"] = locStr(st->getBeginLoc());
    json::Array ms = macrosAt(st->getBeginLoc());
    if (!ms.empty()) o["macro"] = std::move(ms);
    if (const auto *E = dyn_cast<Expr>(st)) {
      o["ty"] = tyStr(E->getType());
      if (E->isLValue()) o["lv"] = true;
      llvm::APSInt V;
      if (foldInt(E, V)) o["val"] = apint(V);
      else if (E->getType()->isPointerType() &&
               E->isNullPointerConstant(C, Expr::NPC_ValueDependentIsNotNull))
        o["null"] = true;
    }
    json::Array kids;
    bool kidsDone = false;
    if (const auto *CE = dyn_cast<CallExpr>(st)) {
      if (const FunctionDecl *FD = CE->getDirectCallee()) o["decl"] = declObj(FD);
      kids.push_back(kidRef(CE->getCallee(), id));
      for (const Expr *A : CE->arguments()) kids.push_back(kidRef(A, id));
      kidsDone = true;
    } else if (const auto *ME = dyn_cast<MemberExpr>(st)) {
      o["decl"] = declObj(ME->getMemberDecl());
      o["op"] = ME->isArrow() ? "->" : ".";
      if (const auto *FD = dyn_cast<FieldDecl>(ME->getMemberDecl())) {
        noteRecord(FD->getParent());
      }
    } else if (const auto *DR = dyn_cast<DeclRefExpr>(st)) {
      o["decl"] = declObj(DR->getDecl());
    } else if (const auto *BO = dyn_cast<BinaryOperator>(st)) {
      o["op"] = BO->getOpcodeStr().str();
    } else if (const auto *UO = dyn_cast<UnaryOperator>(st)) {
      std::string op = UnaryOperator::getOpcodeStr(UO->getOpcode()).str();
      if (UO->isPostfix()) op = "post" + op;
      else if (UO->isIncrementDecrementOp()) op = "pre" + op;
      o["op"] = op;
    } else if (const auto *CA = dyn_cast<CastExpr>(st)) {
      o["op"] = CA->getCastKindName();
    } else if (const auto *SL = dyn_cast<StringLiteral>(st)) {
      o["str"] = hexbytes(SL->getBytes());
    } else if (const auto *UE = dyn_cast<UnaryExprOrTypeTraitExpr>(st)) {
      o["op"] = UE->getKind() == UETT_SizeOf ? "sizeof" : "traitother";
      QualType AT = UE->getTypeOfArgument();
      o["argty"] = tyStr(AT);
      if (!UE->isArgumentType()) {
        const Expr *A = UE->getArgumentExpr()->IgnoreParenImpCasts();
        o["argtext"] = textOf(A->getSourceRange(), 80);
        if (const auto *DR = dyn_cast<DeclRefExpr>(A)) o["argdecl"] = declObj(DR->getDecl());
        else if (const auto *ME = dyn_cast<MemberExpr>(A)) o["argdecl"] = declObj(ME->getMemberDecl());
        else if (const auto *UO = dyn_cast<UnaryOperator>(A)) {
          if (UO->getOpcode() == UO_Deref)
            if (const auto *DR2 = dyn_cast<DeclRefExpr>(UO->getSubExpr()->IgnoreParenImpCasts())) {
              o["argdecl"] = declObj(DR2->getDecl());
              o["argderef"] = true;
            }
        }
      }
      kidsDone = true;
    } else if (const auto *DS = dyn_cast<DeclStmt>(st)) {
      json::Array ds;
      for (const Decl *D : DS->decls()) {
        if (const auto *VD = dyn_cast<VarDecl>(D)) {
          json::Object d = declObj(VD);
          d["ty"] = tyStr(VD->getType());
          if (VD->hasInit()) {
            d["init"] = kidRef(VD->getInit(), id);
            if (VD->isStaticLocal() || VD->getType().isConstQualified()) {
              json::Value iv = initOf(VD);
              if (!(iv.kind() == json::Value::Null)) d["fold"] = std::move(iv);
            }
          }
          ds.push_back(std::move(d));
        }
      }
      o["decls"] = std::move(ds);
      kidsDone = true;
    } else if (const auto *GS = dyn_cast<GotoStmt>(st)) {
      o["label"] = GS->getLabel()->getName().str();
    } else if (const auto *LS = dyn_cast<LabelStmt>(st)) {
      o["label"] = LS->getName();
    }
    if (!kidsDone)
      for (const Stmt *ch : st->children()) {
        if (!ch) { kids.push_back(nullptr); continue; }
        kids.push_back(kidRef(ch, id));
      }
    if (!kids.empty()) o["kids"] = std::move(kids);
    std::string t = textOf(st->getSourceRange());
    if (!t.empty()) o["text"] = t;
    return o;
  }

  void labelsOf(const Stmt *L, json::Array &out) {
    // A block's label statement; collect nested case labels on the same stmt.
    int guard = 0;
    while (L && guard++ < 64) {
      if (const auto *CS = dyn_cast<CaseStmt>(L)) {
        json::Object o;
        llvm::APSInt V;
        if (foldInt(CS->getLHS(), V)) o["case"] = apint(V);
        else o["case"] = nullptr;
        out.push_back(std::move(o));
        return;  // nested cases get their own blocks
      } else if (isa<DefaultStmt>(L)) {
        out.push_back(json::Object{{"default", true}});
        return;
      } else if (const auto *LS = dyn_cast<LabelStmt>(L)) {
        out.push_back(json::Object{{"label", std::string(LS->getName())}});
        return;
      } else return;
    }
  }

  void doFunction(const FunctionDecl *F) {
    json::Object fo;
    fo["name"] = F->getNameAsString();
    fo["id"] = (int64_t)did(F);
    fo["static"] = F->getStorageClass() == SC_Static;
    fo["inline"] = F->isInlineSpecified();
    fo["variadic"] = F->isVariadic();
    fo["loc"] = locStr(F->getLocation());
    fo["endloc"] = locStr(F->getBody()->getEndLoc());
    fo["file"] = fileOf(F->getLocation());
    json::Array fm = macrosAt(F->getLocation());
    if (!fm.empty()) fo["macro"] = std::move(fm);
    fo["ret"] = tyStr(F->getReturnType());
    json::Array ps;
    for (const ParmVarDecl *P : F->parameters()) {
      json::Object p;
      p["id"] = (int64_t)did(P);
      p["name"] = P->getNameAsString();
      p["ty"] = tyStr(P->getType());
      // the type as written (array parameters keep their `[static restrict N]` bound here)
      QualType OT = P->getOriginalType();
      if (const auto *AT = dyn_cast<ConstantArrayType>(OT.getTypePtr())) {
        p["arraybound"] = (int64_t)AT->getSize().getZExtValue();
        p["arraystatic"] = AT->getSizeModifier() == ArrayType::Static;
        p["elemsize"] = (int64_t)C.getTypeSizeInChars(AT->getElementType()).getQuantity();
      }
      if (P->getType().isRestrictQualified() || OT.isRestrictQualified()) p["restrict"] = true;
      if (const auto *AT2 = dyn_cast<ArrayType>(OT.getTypePtr()))
        if (AT2->getIndexTypeQualifiers().hasRestrict()) p["restrict"] = true;
      ps.push_back(std::move(p));
    }
    fo["params"] = std::move(ps);

    CFG::BuildOptions BO;
    BO.setAllAlwaysAdd();
    BO.PruneTriviallyFalseEdges = true;
    std::unique_ptr<CFG> cfg = CFG::buildCFG(F, F->getBody(), &C, BO);
    if (!cfg) { fo["error"] = "no cfg"; functions.push_back(std::move(fo)); return; }
    IdMap id;
    for (const CFGBlock *B : *cfg) {
      unsigned k = 0;
      for (const CFGElement &E : *B) {
        if (auto S = E.getAs<CFGStmt>()) id[S->getStmt()] = {B->getBlockID(), k};
        k++;
      }
    }
    fo["entry"] = (int64_t)cfg->getEntry().getBlockID();
    fo["exit"] = (int64_t)cfg->getExit().getBlockID();
    json::Array blocks;
    for (const CFGBlock *B : *cfg) {
      json::Object bo;
      bo["id"] = (int64_t)B->getBlockID();
      if (B->hasNoReturnElement()) bo["noreturn"] = true;
      json::Array els;
      for (const CFGElement &E : *B) {
        auto S = E.getAs<CFGStmt>();
        if (!S) { els.push_back(json::Object{{"cls", "NonStmt"}}); continue; }
        els.push_back(elemObj(S->getStmt(), id));
      }
      bo["elems"] = std::move(els);
      if (const Stmt *L = B->getLabel()) {
        json::Array ls;
        labelsOf(L, ls);
        if (!ls.empty()) bo["labels"] = std::move(ls);
      }
      if (const Stmt *T = B->getTerminatorStmt()) {
        json::Object to;
        to["cls"] = T->getStmtClassName();
        to["loc"] = locStr(T->getBeginLoc());
        if (const auto *BOp = dyn_cast<BinaryOperator>(T)) to["op"] = BOp->getOpcodeStr().str();
        if (const Expr *LC = B->getLastCondition()) {
          to["cond"] = kidRef(LC, id);
        } else if (const Stmt *Cd = B->getTerminatorCondition()) {
          to["cond"] = kidRef(Cd, id);
        }
        if (const auto *GS = dyn_cast<GotoStmt>(T)) to["label"] = GS->getLabel()->getName().str();
        bo["term"] = std::move(to);
      }
      json::Array succs, usuccs;
      for (const CFGBlock::AdjacentBlock &S : B->succs()) {
        if (const CFGBlock *R = S.getReachableBlock()) { succs.push_back((int64_t)R->getBlockID()); usuccs.push_back(nullptr); }
        else {
          succs.push_back(nullptr);
          if (const CFGBlock *U = S.getPossiblyUnreachableBlock()) usuccs.push_back((int64_t)U->getBlockID());
          else usuccs.push_back(nullptr);
        }
      }
      bo["succs"] = std::move(succs);
      bo["usuccs"] = std::move(usuccs);
      blocks.push_back(std::move(bo));
    }
    fo["blocks"] = std::move(blocks);
    functions.push_back(std::move(fo));
  }

  void doGlobal(const VarDecl *D) {
    json::Object o;
    o["id"] = (int64_t)did(D);
    o["name"] = D->getNameAsString();
    o["ty"] = tyStr(D->getType());
    o["static"] = D->getStorageClass() == SC_Static;
    o["staticlocal"] = D->isStaticLocal();
    o["const"] = D->getType().isConstQualified() ||
        (D->getType()->isArrayType() &&
         C.getBaseElementType(D->getType()).isConstQualified());
    o["loc"] = locStr(D->getLocation());
    o["file"] = fileOf(D->getLocation());
    o["hasinit"] = D->hasInit();
    o["isdef"] = D->isThisDeclarationADefinition() != VarDecl::DeclarationOnly;
    if (D->hasInit()) o["init"] = initOf(D);
    if (D->hasInit()) o["inittext"] = textOf(D->getInit()->getSourceRange(), 200);
    globals.push_back(std::move(o));
  }
};

struct Visitor : RecursiveASTVisitor<Visitor> {
  Extractor &X;
  explicit Visitor(Extractor &x) : X(x) {}
  bool VisitFunctionDecl(FunctionDecl *F) {
    if (!F->doesThisDeclarationHaveABody()) return true;
    if (X.inSystem(F->getLocation())) return true;
    X.doFunction(F);
    return true;
  }
  bool VisitVarDecl(VarDecl *D) {
    if (!D->hasGlobalStorage()) return true;
    if (X.inSystem(D->getLocation())) return true;
    X.doGlobal(D);
    return true;
  }
  bool VisitEnumConstantDecl(EnumConstantDecl *E) {
    if (X.inSystem(E->getLocation())) return true;
    X.enums[E->getName()] = Extractor::apint(E->getInitVal());
    return true;
  }
  bool VisitRecordDecl(RecordDecl *R) {
    if (X.inSystem(R->getLocation())) return true;
    if (R->isCompleteDefinition()) X.noteRecord(R);
    return true;
  }
};

struct Consumer : ASTConsumer {
  void HandleTranslationUnit(ASTContext &C) override {
    if (C.getDiagnostics().hasErrorOccurred()) {
      llvm::errs() << "cfgx: parse errors, no output\n";
      return;
    }
    Extractor X(C);
    Visitor V(X);
    V.TraverseDecl(C.getTranslationUnitDecl());
    json::Object top;
    top["functions"] = std::move(X.functions);
    top["globals"] = std::move(X.globals);
    top["enums"] = std::move(X.enums);
    top["records"] = std::move(X.records);
    top["types"] = std::move(X.types);
    std::error_code EC;
    llvm::raw_fd_ostream OS(OutFile, EC);
    if (EC) { llvm::errs() << "cfgx: cannot write " << OutFile << "\n"; return; }
    OS << json::Value(std::move(top)) << "\n";
  }
};

struct Action : ASTFrontendAction {
  std::unique_ptr<ASTConsumer> CreateASTConsumer(CompilerInstance &, StringRef) override {
    return std::make_unique<Consumer>();
  }
};

}  // namespace

int main(int argc, const char **argv) {
  auto EP = tooling::CommonOptionsParser::create(argc, argv, Cat);
  if (!EP) { llvm::errs() << EP.takeError(); return 2; }
  tooling::ClangTool T(EP->getCompilations(), EP->getSourcePathList());
  int rc = T.run(tooling::newFrontendActionFactory<Action>().get());
  return rc ? 2 : 0;
}
