#!/usr/bin/env python3
"""Seeded-change regression: apply each kept seeded change (seeded/<ID>-<n>/patch.diff:
a realistic breaking change written by a sub-agent that saw only the property text,
which compiles and passes the repository's test suite) to a scratch copy of /repo
(never to /repo itself), run the property's quick check on the copy, and require
exit 1 with a VIOLATION line for that property.  The rules that fired are written
to seeded/<ID>-<n>/detected.txt when --record is given.

usage: tools/seeds.py <ID>|all [--record] [-j N]
A patch that no longer applies to the current tree is skipped (the corpus is
pinned to the tree it was written against), not counted as missed.
Exit 0 when every applicable seed is detected, 2 otherwise.
"""
import json, os, re, subprocess, sys, tempfile, shutil, glob
from concurrent.futures import ThreadPoolExecutor

VERIF = os.path.dirname(os.path.dirname(os.path.abspath(__file__)))
REPO = os.environ.get("VERIF_REPO", "/repo")


def one(seed, pid, record):
    name = os.path.basename(seed.rstrip("/"))
    scratch = tempfile.mkdtemp(prefix="lcp_seed_")
    try:
        subprocess.check_call(["rsync", "-a", "--exclude", ".git", "--exclude", "*.o", "--exclude", "*.a",
                               "--exclude", "tests-output", REPO + "/", scratch + "/"])
        patch = os.path.join(seed, "patch.diff")
        r = subprocess.run(["patch", "-p1", "-s", "-f", "--no-backup-if-mismatch", "-i", patch], cwd=scratch, capture_output=True, text=True)
        if r.returncode != 0:
            return name, "skipped", "patch does not apply to the current tree"
        env = dict(os.environ, VERIF_EVIDENCE_DIR=os.path.join(scratch, "_evidence"), VERIF_NO_SELFTEST="1")
        r = subprocess.run([sys.executable, os.path.join(VERIF, "sa", "check.py"), pid, "--tier", "quick", "--repo", scratch],
                           capture_output=True, text=True, cwd=VERIF, env=env)
        out = r.stdout
        hit = r.returncode == 1 and ("VIOLATION property=%s" % pid) in out
        rules = []
        lines = out.splitlines()
        for i, ln in enumerate(lines):
            if ln.startswith("VIOLATION property=") and i and lines[i - 1].startswith("  "):
                m = re.match(r"\s+(\S+)\s+(.*)", lines[i - 1])
                if m:
                    rules.append((m.group(1), m.group(2).replace(scratch + "/", "")[:400]))
        if record and hit:
            with open(os.path.join(seed, "detected.txt"), "w") as f:
                f.write("check %s --tier quick on a scratch copy with patch.diff applied: exit %d\n" % (pid, r.returncode))
                for ru, tx in rules:
                    f.write("%s  %s\n" % (ru, tx))
        return name, ("caught" if hit else "MISSED"), "; ".join(sorted(set(ru for ru, _ in rules))) or out.strip().splitlines()[-2:]
    finally:
        shutil.rmtree(scratch, ignore_errors=True)


def main():
    args = [a for a in sys.argv[1:] if not a.startswith("-")]
    record = "--record" in sys.argv
    jobs = 4
    if "-j" in sys.argv:
        jobs = int(sys.argv[sys.argv.index("-j") + 1])
        args = [a for a in args if a != str(jobs)]
    which = args[0] if args else "all"
    seeds = sorted(glob.glob(os.path.join(VERIF, "seeded", "*-*")))
    work = []
    for s in seeds:
        name = os.path.basename(s)
        pid = name.split("-")[0]
        if which != "all" and pid != which:
            continue
        if os.path.exists(os.path.join(s, "patch.diff")):
            work.append((s, pid))
    ran = missed = skipped = 0
    with ThreadPoolExecutor(max_workers=jobs) as ex:
        for name, verdict, detail in ex.map(lambda w: one(w[0], w[1], record), work):
            print("%-8s %-8s %s" % (verdict, name, detail))
            if verdict == "skipped":
                skipped += 1
                continue
            ran += 1
            if verdict != "caught":
                missed += 1
    print("%d seeds run, %d missed, %d skipped" % (ran, missed, skipped))
    return 2 if missed else 0


if __name__ == "__main__":
    sys.exit(main())
