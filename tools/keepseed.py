#!/usr/bin/env python3
"""usage: tools/keepseed.py <seed dir> <name> <detected-by ids,comma> [note]
Copies a confirmed seeded change into /verif/seeded/<name>/ and records what was run."""
import json, os, shutil, sys
src, name, det = sys.argv[1], sys.argv[2], sys.argv[3]
note = sys.argv[4] if len(sys.argv) > 4 else ""
dst = os.path.join(os.path.dirname(os.path.dirname(os.path.abspath(__file__))), "seeded", name)
os.makedirs(dst, exist_ok=True)
for fn in os.listdir(src):
    p = os.path.join(src, fn)
    if os.path.isfile(p) and os.path.getsize(p) < 200000 and not fn.endswith((".o", ".a", ".log")) and os.access(p, os.R_OK):
        if fn in ("demo", "a.out") or (os.access(p, os.X_OK) and not fn.endswith(".sh")):
            continue
        shutil.copy(p, os.path.join(dst, fn))
meta = {}
mp = os.path.join(dst, "meta.json")
if os.path.exists(mp):
    try:
        meta = json.load(open(mp))
    except Exception:
        meta = {"raw": open(mp).read()}
meta["detected_by"] = [d for d in det.split(",") if d]
meta["verified_here"] = "patch applied with `git -C /repo apply`, the listed checks run with --tier quick (exit 1 + VIOLATION naming the construct), /repo restored with `git checkout -- .`; the demonstration (run.sh) was run by the sub-agent with and without the change in its scratch worktree" + ((" ; " + note) if note else "")
json.dump(meta, open(mp, "w"), indent=1)
print("kept", dst, sorted(os.listdir(dst)))
