#!/usr/bin/env python3
"""usage: tools/linetry.py <file>:<line> '<new text of that line>' [ID ...]
Replaces one line of a scratch copy of /repo and runs the named quick checks (default: all 20) against the copy; prints which
rules report.  For triaging survivors of tools/sweep.py."""
import os, subprocess, sys, tempfile, shutil, json
from concurrent.futures import ThreadPoolExecutor
VERIF = os.path.dirname(os.path.dirname(os.path.abspath(__file__)))
REPO = os.environ.get("VERIF_REPO", "/repo")
loc, new = sys.argv[1], sys.argv[2]
ids = sys.argv[3:] or ["C%02d" % i for i in range(1, 21)]
path, ln = loc.rsplit(":", 1)
S = tempfile.mkdtemp(prefix="lcp_line_")
try:
    subprocess.check_call(["rsync", "-a", "--exclude", ".git", "--exclude", "*.o", "--exclude", "*.a", REPO + "/", S + "/"])
    p = os.path.join(S, path)
    L = open(p).read().split("\n")
    old = L[int(ln) - 1]
    L[int(ln) - 1] = old[:len(old) - len(old.lstrip())] + new
    open(p, "w").write("\n".join(L))
    print("%s:%s  %s  ->  %s" % (path, ln, old.strip(), new))
    def one(pid):
        env = dict(os.environ, VERIF_EVIDENCE_DIR=os.path.join(S, "_ev_" + pid))
        r = subprocess.run([sys.executable, os.path.join(VERIF, "sa", "check.py"), pid, "--tier", "quick", "--repo", S], capture_output=True, text=True, cwd=VERIF, env=env)
        first = [l for l in r.stdout.split("\n") if l.startswith("  ")]
        return pid, r.returncode, (first[0][:230] if first else "")
    with ThreadPoolExecutor(8) as ex:
        for pid, rc, msg in ex.map(one, ids):
            if rc != 0:
                print("  [%s] exit=%d %s" % (pid, rc, msg))
finally:
    shutil.rmtree(S, ignore_errors=True)
