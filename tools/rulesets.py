#!/usr/bin/env python3
"""usage: tools/rulesets.py [--record]
Runs the 20 quick checks on /repo and compares, per property, the set of rules that produced obligations with the recorded one
(sa/rulesets.json): a rule that silently stopped running (an edit that moved a call out of reach) is reported.  --record rewrites
the file from the current run.  A development guard, not a check."""
import json, os, re, subprocess, sys
from concurrent.futures import ThreadPoolExecutor
V = os.path.dirname(os.path.dirname(os.path.abspath(__file__)))
F = os.path.join(V, "sa", "rulesets.json")


def one(pid):
    r = subprocess.run([sys.executable, os.path.join(V, "sa", "check.py"), pid, "--tier", "quick"], capture_output=True, text=True, cwd=V,
                       env=dict(os.environ, VERIF_EVIDENCE_DIR=os.path.join(V, "build", "rulesets_ev")))
    line = [l for l in r.stdout.split("\n") if l.startswith(pid + " [quick]")]
    rules = dict((m.group(1), int(m.group(2))) for m in re.finditer(r"([A-Za-z0-9\-]+)=(\d+)", line[-1].split(";", 1)[1])) if line else {}
    return pid, r.returncode, rules


ids = ["C%02d" % i for i in range(1, 21)]
with ThreadPoolExecutor(8) as ex:
    res = {pid: (rc, rules) for pid, rc, rules in ex.map(one, ids)}
if "--record" in sys.argv:
    json.dump({pid: sorted(res[pid][1]) for pid in ids}, open(F, "w"), indent=1)
    print("recorded", sum(len(v[1]) for v in res.values()), "rule instances sets")
    sys.exit(0)
ref = json.load(open(F))
bad = 0
for pid in ids:
    rc, rules = res[pid]
    if rc != 0:
        print("%s: exit %d on the unchanged tree" % (pid, rc)); bad += 1
    gone = [r for r in ref.get(pid, []) if r not in rules]
    if gone:
        print("%s: rules that no longer run: %s" % (pid, gone)); bad += 1
print("rule sets: %s" % ("ok" if not bad else "%d problem(s)" % bad))
sys.exit(1 if bad else 0)
