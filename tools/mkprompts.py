#!/usr/bin/env python3
"""usage: tools/mkprompts.py <round number> <template dir of an earlier round> <out dir>
Writes one prompt per property for a round of independently written breaking changes: the earlier round's prompt with the worktree
path replaced and the list of slips already made (seeded/*/meta.json summaries) rebuilt.  The prompts contain nothing else from /verif."""
import glob, json, os, re, sys
V = os.path.dirname(os.path.dirname(os.path.abspath(__file__)))
rnd, tdir, out = sys.argv[1], sys.argv[2], sys.argv[3]
os.makedirs(out, exist_ok=True)
for tp in sorted(glob.glob(os.path.join(tdir, "C*.txt"))):
    pid = os.path.basename(tp)[:-4]
    t = open(tp).read()
    old = re.search(r"/tmp/wt(\d+)_" + pid, t).group(1)
    t = t.replace("/tmp/wt%s_%s" % (old, pid), "/tmp/wt%s_%s" % (rnd, pid))
    head, rest = t.split("IMPORTANT -- earlier rounds", 1)
    intro, tail = rest.split("\n  - ", 1)
    tail = tail.split("\n\nFor EACH change", 1)[1]
    items = []
    for d in sorted(glob.glob(os.path.join(V, "seeded", pid + "-*")), key=lambda x: int(x.rsplit("-", 1)[1])):
        m = json.load(open(os.path.join(d, "meta.json")))
        s = re.sub(r"\s+", " ", m.get("summary", "")).strip()
        if s:
            items.append("  - " + (s if len(s) < 520 else s[:517].rsplit(" ", 1)[0] + " ..."))
    t = head + "IMPORTANT -- earlier rounds" + intro + "\n" + "\n".join(items) + "\n\nFor EACH change" + tail
    open(os.path.join(out, pid + ".txt"), "w").write(t)
    print(pid, len(items), "earlier slips listed")
