#!/usr/bin/env python3
"""Mutation sweep: a search for blind spots of the checks, not a check.

For each given source file of the library, small syntactic mutations are made one at a time in scratch copies of /repo
(never in /repo): an integer literal +-1, a relational operator relaxed or tightened, == / != swapped, && / || swapped,
binary + / - swapped, a simple statement deleted.  For each mutant the quick checks of the properties anchored in that
file are run against the copy; a mutant no check reports is then built and the library's own test suite is run on it.
What survives both -- compiles, passes the suite, no check objects -- is listed for triage by hand: it is either an
equivalent mutant / outside every property, or a clause no rule decides yet.

usage: tools/sweep.py [-j N] [--max M] [--seed S] [--out DIR] file...        (files relative to the repository root)
       tools/sweep.py [-j N] --recheck RESULTS.json     (run today's checks again on the survivors of an earlier sweep; the
                                                         build and the suite are not repeated; writes RESULTS.json back)
"""
import json, os, random, re, shutil, subprocess, sys, tempfile
from multiprocessing import Pool

VERIF = os.path.dirname(os.path.dirname(os.path.abspath(__file__)))
REPO = os.environ.get("VERIF_REPO", "/repo")


def props_of(path):
    out = []
    for l in open(os.path.join(VERIF, "properties.jsonl")):
        d = json.loads(l)
        if path in d["anchors"]["files"]:
            out.append(d["id"])
    return out


def code_lines(text):
    """indices of lines that are code inside a function body (not comments, preprocessor, declarations at file scope)"""
    lines = text.split("\n")
    out = []
    depth = 0
    incomment = False
    for i, ln in enumerate(lines):
        s = ln.strip()
        if incomment:
            if "*/" in s:
                incomment = False
            continue
        if s.startswith("/*"):
            if "*/" not in s:
                incomment = True
            continue
        if s.startswith("*") or s.startswith("//") or s.startswith("#") or s.endswith("\\"):
            continue
        code = re.sub(r'"(\\.|[^"\\])*"', '""', ln)
        code = re.sub(r"/\*.*?\*/", "", code)
        if depth > 0 and s and not s.startswith("warn") and "assert(" not in s and "CTASSERT" not in s:
            out.append(i)
        depth += code.count("{") - code.count("}")
    return lines, out


OPS = [
    ("rel", re.compile(r"(?<![<>=!\-])(<=|>=|<|>)(?![<>=])"), {"<": ["<="], "<=": ["<"], ">": [">="], ">=": [">"]}),
    ("eq", re.compile(r"(==|!=)"), {"==": ["!="], "!=": ["=="]}),
    ("logic", re.compile(r"(&&|\|\|)"), {"&&": ["||"], "||": ["&&"]}),
    ("arith", re.compile(r"(?<=\w|\)|\]) (\+|-) (?=\w|\()"), {"+": ["-"], "-": ["+"]}),
]
NUM = re.compile(r"(?<![\w.])(0x[0-9a-fA-F]+|\d+)(?![\w.])")


def mutants_of(path, text):
    lines, idx = code_lines(text)
    out = []
    for i in idx:
        ln = lines[i]
        masked = re.sub(r'"(\\.|[^"\\])*"', lambda m: '"' + " " * (len(m.group(0)) - 2) + '"', ln)
        masked = re.sub(r"'(\\.|[^'\\])'", lambda m: " " * len(m.group(0)), masked)
        for name, rx, table in OPS:
            for m in rx.finditer(masked):
                tok = m.group(1)
                if name == "rel" and (masked[m.start() - 1:m.start()] == "-" or "->" in masked[max(0, m.start() - 1):m.end() + 1] or "#include" in ln):
                    continue
                for rep in table[tok]:
                    new = ln[:m.start(1)] + rep + ln[m.end(1):]
                    out.append((name, i, new))
        for m in NUM.finditer(masked):
            tok = m.group(1)
            try:
                v = int(tok, 0) if not (tok.startswith("0") and len(tok) > 1 and not tok.lower().startswith("0x")) else int(tok, 8)
            except ValueError:
                continue
            for nv in ([v + 1] + ([v - 1] if v > 0 else [])):
                rep = hex(nv) if tok.lower().startswith("0x") else str(nv)
                out.append(("const", i, ln[:m.start(1)] + rep + ln[m.end(1):]))
        s = ln.strip()
        if s.endswith(";") and not s.startswith(("return", "goto", "break", "continue", "}", "else", "case", "default")) and re.match(r"^[\w\*\(\[\.\->&\s]+(=|\+=|-=|\+\+|--|\()", s) and \
                not re.match(r"^(struct|const|static|unsigned|signed|char|int|long|short|size_t|ssize_t|uint\d+_t|int\d+_t|void|double|float)\b", s) and "(" not in s.split("=")[0][:0]:
            # a one-line assignment or call: delete it
            if s.count("(") == s.count(")"):
                out.append(("del", i, ln[:len(ln) - len(ln.lstrip())] + ";"))
    return lines, out


_scratch = None


def _worker_init():
    global _scratch
    _scratch = tempfile.mkdtemp(prefix="lcp_sweep_")
    subprocess.check_call(["rsync", "-a", "--exclude", ".git", REPO + "/", _scratch + "/"])


def run_one(job):
    checks_only = False
    if len(job) == 6:
        job, checks_only = job[:5], True
    path, kind, lineno, new, props = job
    full = os.path.join(_scratch, path)
    orig = open(full).read()
    lines = orig.split("\n")
    old = lines[lineno]
    lines[lineno] = new
    open(full, "w").write("\n".join(lines))
    res = {"file": path, "line": lineno + 1, "kind": kind, "old": old.strip(), "new": new.strip(), "props": props}
    try:
        verdicts = {}
        for pid in props:
            env = dict(os.environ, VERIF_EVIDENCE_DIR=os.path.join(_scratch, "_ev"))
            r = subprocess.run([sys.executable, os.path.join(VERIF, "sa", "check.py"), pid, "--tier", "quick", "--repo", _scratch], capture_output=True, text=True, cwd=VERIF, env=env, timeout=600)
            verdicts[pid] = r.returncode
            if r.returncode == 1:
                m = re.search(r"^  (\S+) ", r.stdout, re.M)
                res["rule"] = m.group(1) if m else "?"
                break
        res["checks"] = verdicts
        if 1 in verdicts.values():
            res["status"] = "reported"
            return res
        if checks_only:
            res["status"] = "broken-exit2" if 2 in verdicts.values() else "SURVIVOR"
            return res
        b = subprocess.run(["make", "all"], cwd=_scratch, capture_output=True, text=True, timeout=900)
        if b.returncode != 0:
            res["status"] = "does-not-build"
            return res
        # a mutant that makes a test spin for ever fails the suite: bound the run (the suite takes about a minute)
        t = subprocess.run(["timeout", "-k", "5", "420", "make", "test"], cwd=_scratch, capture_output=True, text=True, timeout=1800)
        subprocess.run("pkill -f %s/tests 2>/dev/null; true" % _scratch, shell=True)
        if t.returncode != 0:
            res["status"] = "suite-fails" + ("-and-broken" if 2 in verdicts.values() else "")
            return res
        res["status"] = "broken-exit2" if 2 in verdicts.values() else "SURVIVOR"
        return res
    except subprocess.TimeoutExpired:
        res["status"] = "timeout"
        return res
    finally:
        open(full, "w").write(orig)
        if not checks_only:
            subprocess.run(["make", "all"], cwd=_scratch, capture_output=True, text=True)


def main():
    args = sys.argv[1:]
    j, mx, seed, out = 8, 30, 1, "/tmp/verif_sweep"
    files = []
    recheck = None
    i = 0
    while i < len(args):
        if args[i] == "--recheck":
            recheck = args[i + 1]; i += 2
        elif args[i] == "-j":
            j = int(args[i + 1]); i += 2
        elif args[i] == "--max":
            mx = int(args[i + 1]); i += 2
        elif args[i] == "--seed":
            seed = int(args[i + 1]); i += 2
        elif args[i] == "--out":
            out = args[i + 1]; i += 2
        else:
            files.append(args[i]); i += 1
    if recheck:
        old = json.load(open(recheck))
        keep = [r for r in old if r["status"] not in ("SURVIVOR", "broken-exit2")]
        jobs = []
        for r in old:
            if r["status"] in ("SURVIVOR", "broken-exit2"):
                src = open(os.path.join(REPO, r["file"])).read().split("\n")
                ln = r["line"] - 1
                if ln >= len(src) or src[ln].strip() != r["old"]:
                    print("stale (source changed): %s:%d" % (r["file"], r["line"]))
                    continue
                new = src[ln][:len(src[ln]) - len(src[ln].lstrip())] + r["new"]
                jobs.append((r["file"], r["kind"], ln, new, r["props"], True))
        print("rechecking %d survivors" % len(jobs))
        with Pool(j, initializer=_worker_init) as pool:
            for r in pool.imap_unordered(run_one, jobs):
                keep.append(r)
                print("%-14s %s:%d [%s] %s  ->  %s   %s" % (r["status"], r["file"], r["line"], r["kind"], r["old"][:60], r["new"][:60], r.get("rule", "")), flush=True)
        json.dump(keep, open(recheck, "w"), indent=1)
        for d in os.listdir(tempfile.gettempdir()):
            if d.startswith("lcp_sweep_"):
                shutil.rmtree(os.path.join(tempfile.gettempdir(), d), ignore_errors=True)
        return
    os.makedirs(out, exist_ok=True)
    rnd = random.Random(seed)
    jobs = []
    for path in files:
        props = props_of(path)
        if not props:
            print("no property is anchored in %s" % path)
            continue
        text = open(os.path.join(REPO, path)).read()
        lines, ms = mutants_of(path, text)
        rnd.shuffle(ms)
        for kind, ln, new in ms[:mx]:
            jobs.append((path, kind, ln, new, props))
    print("%d mutants over %d files" % (len(jobs), len(files)))
    with Pool(j, initializer=_worker_init) as pool:
        results = []
        for r in pool.imap_unordered(run_one, jobs):
            results.append(r)
            print("%-14s %s:%d [%s] %s  ->  %s   %s" % (r["status"], r["file"], r["line"], r["kind"], r["old"][:60], r["new"][:60], r.get("rule", "")), flush=True)
    json.dump(results, open(os.path.join(out, "sweep-%d.json" % seed), "w"), indent=1)
    tally = {}
    for r in results:
        tally[r["status"]] = tally.get(r["status"], 0) + 1
    print(tally)
    for d in os.listdir(tempfile.gettempdir()):
        if d.startswith("lcp_sweep_"):
            shutil.rmtree(os.path.join(tempfile.gettempdir(), d), ignore_errors=True)


if __name__ == "__main__":
    main()
