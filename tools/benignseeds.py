#!/usr/bin/env python3
"""usage: tools/benignseeds.py [ID ...] [--record] [-j N]
Runs ALL twenty quick checks (tools/benigntry.sh, on a scratch copy) against every independently written behaviour-preserving
refactoring kept in benignseeds/<ID>-<n>/ and compares with benignseeds/<ID>-<n>/status.txt: `quiet`, or the list of checks and
rules that (still) raise a false alarm on it.  --record rewrites status.txt.  Exit 1 when a refactoring recorded as quiet
is not quiet any more (a regression of the machinery); refactorings recorded with open false alarms are listed, not failed."""
import glob, os, re, subprocess, sys
from concurrent.futures import ThreadPoolExecutor
V = os.path.dirname(os.path.dirname(os.path.abspath(__file__)))
args = [a for a in sys.argv[1:] if not a.startswith("-")]
record = "--record" in sys.argv
j = 3
if "-j" in sys.argv:
    j = int(sys.argv[sys.argv.index("-j") + 1])
    args = [a for a in args if a != str(j)]
dirs = sorted(d for d in glob.glob(os.path.join(V, "benignseeds", "*-*")) if not args or os.path.basename(d).split("-")[0] in args)


def run(d):
    r = subprocess.run([os.path.join(V, "tools", "benigntry.sh"), os.path.join(d, "patch.diff")], capture_output=True, text=True, env=dict(os.environ, JOBS="6"))
    out = r.stdout
    if re.search(r"^quiet", out, re.M):
        return d, "quiet"
    checks = re.findall(r"^\[(C\d\d)\] exit=(\d)", out, re.M)
    rules = sorted(set(l.split()[0] for l in out.splitlines() if l.startswith("  ") and l.split()))
    return d, "alarm " + " ".join("%s:%s" % c for c in checks) + " :: " + " ".join(rules)


bad = 0
nq = na = 0
with ThreadPoolExecutor(max_workers=j) as ex:
    for d, st in ex.map(run, dirs):
        name = os.path.basename(d)
        p = os.path.join(d, "status.txt")
        old = open(p).read().strip() if os.path.exists(p) else None
        if record:
            open(p, "w").write(st + "\n")
        if st == "quiet":
            nq += 1
            print("quiet    %s" % name)
        else:
            na += 1
            if old == "quiet" and not record:
                bad += 1
                print("REGRESSED %s %s" % (name, st))
            else:
                print("open     %s %s" % (name, st))
print("%d refactorings run, %d quiet, %d with open false alarms, %d regressed" % (nq + na, nq, na, bad))
sys.exit(1 if bad else 0)
