/*
 * Generic instantiations of /repo's PARSENUM macros: one function per kind of target, with bounds that are not compile-time
 * constants, so that every arm of the macros' type dispatch and of their bound handling is present in the control-flow graph
 * (in the library's own expansions the bounds are literals and clang prunes the arms they exclude).  Never compiled into
 * anything and never run: sa/rules/c16.py extracts its CFG with the repository's current util/parsenum.h.
 */
#include <stddef.h>
#include <stdint.h>

#include "parsenum.h"

int
inst_unsigned_sbounds(uint32_t * x, const char * s, intmax_t min, intmax_t max, int base, int trailing)
{

	return (PARSENUM_EX(x, s, min, max, base, trailing));
}

int
inst_unsigned_ubounds(uint64_t * x, const char * s, uintmax_t min, uintmax_t max, int base, int trailing)
{

	return (PARSENUM_EX(x, s, min, max, base, trailing));
}

int
inst_signed(int32_t * x, const char * s, intmax_t min, intmax_t max, int base, int trailing)
{

	return (PARSENUM_EX(x, s, min, max, base, trailing));
}

int
inst_float(double * x, const char * s, double min, double max, int trailing)
{

	return (PARSENUM_EX(x, s, min, max, 0, trailing));
}

int
inst_unsigned_nobounds(uint16_t * x, const char * s, int base, int trailing)
{

	return (PARSENUM_EX(x, s, base, trailing));
}

int
inst_float_nobounds(float * x, const char * s, int trailing)
{

	return (PARSENUM_EX(x, s, 0, trailing));
}

int
inst_plain4(size_t * x, const char * s, intmax_t min, intmax_t max)
{

	return (PARSENUM(x, s, min, max));
}

int
inst_plain2(uintmax_t * x, const char * s)
{

	return (PARSENUM(x, s));
}
