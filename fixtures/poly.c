/* Fixture for the relational domain's self-test (sa/selftest_poly.py): each function has claims that must be proved and
 * claims that must NOT be proved (the latter are false in C; proving one would be a soundness bug of the analysis). */
#include <stddef.h>
#include <stdint.h>
#include <sys/types.h>

struct win { size_t buflen; size_t bufpos; size_t datalen; unsigned char * buf; };

/* unsigned subtraction wraps: d <= a is false when b > a */
size_t
sub_wraps(size_t a, size_t b)
{
	size_t d;

	d = a - b;
	return (d);
}

/* guarded subtraction is exact */
size_t
sub_guarded(size_t a, size_t b)
{
	size_t d;

	if (a < b)
		return (0);
	d = a - b;
	return (d);
}

/* x > 1 false edge is x <= 1, not x <= 0 */
int
twin(size_t x)
{

	if (x > 1)
		return (1);
	return (0);
}

/* a narrowing store does not preserve the value */
int
narrow(size_t n)
{
	uint8_t b;

	b = (uint8_t)n;
	return (b);
}

/* signed to unsigned conversion of a possibly negative value */
size_t
signconv(ssize_t r)
{
	size_t u;

	u = (size_t)r;
	return (u);
}

/* loop: i == n at exit, nothing tighter */
size_t
loop_count(size_t n)
{
	size_t i;

	for (i = 0; i < n; i++)
		continue;
	return (i);
}

/* the callee may change *w: facts about its fields do not survive */
void opaque(struct win *);

size_t
escape(struct win * w)
{

	if (w->bufpos > w->datalen)
		return (0);
	opaque(w);
	return (w->datalen - w->bufpos);
}

/* fields with different names do not alias; same name through another pointer may */
size_t
alias(struct win * a, struct win * b)
{

	a->bufpos = 1;
	b->bufpos = 5;
	return (a->bufpos);
}

/* floor division */
size_t
quarter(size_t a, size_t n)
{

	if (a / 4 > n)
		return (1);
	return (0);
}

/* join of two branches keeps what both imply */
size_t
join_max(size_t a, size_t b)
{
	size_t m;

	if (a < b)
		m = b;
	else
		m = a;
	return (m);
}

/* compaction keeps the amount of buffered data */
size_t
compact(struct win * w)
{
	size_t have;

	if (w->bufpos > w->datalen)
		return (0);
	have = w->datalen - w->bufpos;
	w->datalen -= w->bufpos;
	w->bufpos = 0;
	return (have);
}

/* stores through pointers: different non-character types do not alias, equal types and character types may */
size_t
alias_types(size_t * a, int * b)
{

	*a = 5;
	*b = 7;
	return (*a);
}

size_t
alias_same(size_t * a, size_t * b)
{

	*a = 5;
	*b = 7;
	return (*a);
}

size_t
alias_char(size_t * a, unsigned char * b)
{

	*a = 5;
	*b = 7;
	return (*a);
}

/* a cursor that moves two bytes per index step: the loop invariant p == out + 2 i is an affine combination of what holds
 * before the first and after the first iteration; the difference returned is 2 n, not n and not 3 n */
ptrdiff_t
two_per_step(char * out, size_t n)
{
	char * p = out;
	size_t i;

	for (i = 0; i < n; i++) {
		*p++ = 'a';
		*p++ = 'b';
	}
	return (p - out);
}

/* two loops in sequence: what the first establishes about its counter at exit must still be known inside the second */
size_t
two_loops(size_t n)
{
	size_t i, j, k;

	k = 0;
	for (i = 0; i < 2 * n; i++)
		k++;
	for (j = 0; j < n; j++)
		continue;
	return (k);
}

/* a variable updated from itself by an invertible affine map: what was known of the old value is carried to the new one
 * (old >= 1  =>  new = 2 old + 3 >= 5), and nothing stronger */
size_t
self_affine(size_t x)
{

	if (x == 0)
		return (0);
	x = x * 2 + 3;
	return (x);
}

/* rounding down to a multiple of a power of two by masking: x & ~(2^k - 1) is within 2^k - 1 below x, so rounding (len + 4095)
 * down to a multiple of 4096 yields at least len -- and masking with ~4096 (one bit cleared) yields no such thing */
size_t
round_mask(size_t len)
{

	return ((len + 4095) & ~(size_t)4095);
}

size_t
wrong_mask(size_t len)
{

	return ((len + 4095) & ~(size_t)4096);
}
